#!/bin/bash
# selftest/run.sh [all|seeds|seeds2|mutants|harmless|engine] : must-fail corpus. Every seeded change (/verif/seeded/<ID>/patch.diff, written by
# independent sub-agents) and every mutant of selftest/expect.json is applied to a scratch worktree of /repo HEAD and the
# checks of the expected properties must report a VIOLATION. Prints one line per patch; exit 1 if a patch is missed.
# Not a MANIFEST check (engine development discipline). Evidence of the unchanged tree is not touched (KVC_REPO runs write scratch evidence).
set -u
cd "$(dirname "$0")/.."
what=${1:-all}
miss=0
run() { # patch props...
  local patch=$1; shift
  local out; out=$(./mutcheck.sh "$patch" "$@" 2>&1)
  local hit=""
  for p in "$@"; do
    if echo "$out" | grep -q "^== $p exit=1"; then
      obl=$(grep -E "^  failed obligation" /tmp/mutcheck_$p.out | sed -E 's/^  failed obligation ([^:]*):.*/\1/' | sed -E 's/@return#[0-9]+//; s/#[0-9]+$//' | sort -u | head -4 | tr '\n' ' ')
      nf=$(grep -c "no-failing-input-found" /tmp/mutcheck_$p.out)
      hit="$hit $p[$obl; no-input=$nf]"
    fi
  done
  if echo "$out" | grep -q "exit=2\|PATCH DOES NOT APPLY"; then echo "BROKEN  $patch (the check could not run: $(echo "$out" | grep -m1 "exit=2\|PATCH" | cut -c1-80))"; miss=1
  elif [ -z "$hit" ]; then echo "MISSED  $patch (expected: $*)"; miss=1; else echo "caught  $patch ->$hit"; fi
}
if [ "$what" = all ] || [ "$what" = seeds ]; then
  for d in seeded/C*/; do id=$(basename "$d"); [ -f "$d/patch.diff" ] || continue
    props=$(python3 -c "import json;print(' '.join(json.load(open('$d/meta.json')).get('check_properties',['$id'])))")
    run "$d/patch.diff" $props
  done
fi
if [ "$what" = all ] || [ "$what" = seeds2 ]; then
  # round 2: two further seeds per property (seeded2/<ID><a|b>/), written after the machinery was built
  for d in seeded2/C*/; do [ -f "$d/patch.diff" ] || continue
    props=$(python3 -c "import json;m=json.load(open('$d/meta.json'));print(' '.join(m.get('check_properties',[m['property']])))")
    if python3 -c "import json,sys;sys.exit(0 if json.load(open('$d/meta.json')).get('accepted_miss') else 1)"; then
      # documented miss (DESIGN.md 12.2): still run, report, but do not fail the corpus
      before=$miss; out=$(run "$d/patch.diff" $props); echo "$out" | sed 's/^MISSED /MISSED-ACCEPTED /'; miss=$before
      continue
    fi
    run "$d/patch.diff" $props
  done
fi
if [ "$what" = all ] || [ "$what" = mutants ]; then
  python3 -c "
import json
for k,v in json.load(open('selftest/expect.json')).items():
    if not k.startswith('_'): print(k,' '.join(v))" | while read f props; do run "selftest/$f" $props; done
fi
if [ "$what" = all ] || [ "$what" = harmless ]; then
  python3 -c "
import json
for k,v in json.load(open('selftest/expect_pass.json')).items():
    if not k.startswith('_'): print(k,' '.join(v))" | while read f props; do
    out=$(./mutcheck.sh "selftest/$f" $props 2>&1)
    if echo "$out" | grep -q "exit=1"; then echo "FALSE-ALARM selftest/$f: $(echo "$out" | grep -E '^  failed' | head -2 | cut -c1-160)"; else echo "quiet   selftest/$f ($props)"; fi
  done
fi
if [ "$what" = all ] || [ "$what" = engine ]; then
  # engine canary: a contract on a function that writes through its slice parameters must be REFUSED (kvc's
  # slices are values; accepting it would prove facts about a copy) - see DESIGN addendum 2026-10-04
  git -C /repo apply /verif/selftest/e_slice_param_write.diff
  out=$(bin/kvc verify findAugmentingPath 2>&1)
  git -C /repo checkout -- .
  if echo "$out" | grep -q "CANNOT TRANSLATE.*slice parameter"; then echo "refused selftest/e_slice_param_write.diff (as it must be)"; else echo "MISSED  selftest/e_slice_param_write.diff: accepted a write through a slice parameter"; miss=1; fi
fi
exit $miss

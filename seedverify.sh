#!/bin/bash
# seedverify.sh <ID> [outdir] [base-branch] [tag]: independently confirm a seeded change: applies to the pinned tree (+fix commits),
# suite passes with it, demonstration fails with it and passes without it. Result: /tmp/seedverify_<ID>.log
id=$1; out=${2:-/tmp/seed_${id}_out}; base=${3:-seedbase}; tag=${4:-$id}; log=/tmp/seedverify_$tag.log; wt=/tmp/sv_$tag
exec > "$log" 2>&1
git -C /repo worktree remove --force $wt 2>/dev/null; rm -rf $wt
git -C /repo worktree add -q --detach $wt $base || exit 2
cd $wt
git apply "$out/patch.diff" || { echo "RESULT: patch does not apply"; exit 2; }
echo "--- suite with change"; GOPROXY=off go test -vet=off -count=1 ./... > /tmp/sv_suite_$tag.txt 2>&1; suite=$?
grep -v "no test files" /tmp/sv_suite_$tag.txt | tail -15
git checkout -q go.work.sum 2>/dev/null
# demo: copy test files next to the package named in run.sh, or run run.sh
cat "$out/demo/run.sh"
if ! grep -q "^cp \|^ *cp " "$out/demo/run.sh"; then
  for f in "$out"/demo/*_test.go; do [ -e "$f" ] && cp "$f" internal/kessoku/ && echo "copied $(basename $f)"; done
fi
run_demo() { (set -o pipefail; cd $wt && GOPROXY=off bash "$out/demo/run.sh" 2>&1 | tail -25); }
echo "--- demo WITH change"; run_demo; with=$?
git apply -R "$out/patch.diff"
echo "--- demo WITHOUT change"; run_demo; without=$?
echo "RESULT: suite_exit=$suite demo_with_change_exit=$with demo_without_change_exit=$without"
cd /; git -C /repo worktree remove --force $wt

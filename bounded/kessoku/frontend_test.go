//go:build verif

package kessoku

import (
	"fmt"
	"go/ast"
	"go/parser"
	"go/token"
	"os"
	"path/filepath"
	"sort"
	"strings"
	"testing"

	"golang.org/x/tools/go/packages"
)

// TestVerifBoundedFrontend executes the whole generator (real Processor: loader, parser, graph, emitters, printer) on a
// small corpus of hand-written packages that exercise the front end the contracts do not reach (findInjectDirectives,
// parseProviderArgument / parseProviderType, getVarDecl, collectDependencies, import bookkeeping) and checks, per case,
//   - C04: the user's package together with the generated file type-checks (go/packages, no error at all);
//   - C02: the generated injector calls exactly the providers the declaration names (through Sets passed by variable,
//     several variables in one var spec, nested Sets) and none that it does not name;
//   - C05/C10: providers declared Async - in either nesting order with Bind - make the injector concurrent (it takes a
//     context.Context first and starts goroutines), declarations without Async do not.
//
// The packages are written into a scratch copy of the repository (KVC_SCRATCH=1). Labelled bounded; never counted as proof.
func TestVerifBoundedFrontend(t *testing.T) {
	res := &kvcResult{Evidence: map[string]any{}}
	defer res.emit()
	if os.Getenv("KVC_SCRATCH") != "1" {
		res.Failures = append(res.Failures, kvcFailure{Name: "not_in_scratch", Detail: "refusing to write test packages outside a scratch copy"})
		return
	}
	const types_ = `
type Config struct{ Env string }
type DB struct{ c *Config }
type Cache struct{ c *Config }
type Store interface{ Get() string }
type MemStore struct{}
func (*MemStore) Get() string { return "" }
type Queue interface{ Push() }
type MemQueue struct{}
func (*MemQueue) Push() {}
type Metrics struct{}
type App struct{}
type Box[T any] struct{ v T }

func NewDevConfig() *Config   { return &Config{"dev"} }
func NewProdConfig() *Config  { return &Config{"prod"} }
func NewDB(c *Config) *DB     { return &DB{c} }
func NewCache(c *Config) *Cache { return &Cache{c} }
func NewMemStore() *MemStore  { return &MemStore{} }
func NewMemQueue() *MemQueue  { return &MemQueue{} }
func NewMetrics() *Metrics    { return &Metrics{} }
func NewApp(c *Config) *App   { return &App{} }
func NewAppDB(c *Config, db *DB, cache *Cache) *App { return &App{} }
func NewAppStores(s Store, q Queue, m *Metrics) *App { return &App{} }
func main() {}
`
	type tcase struct {
		name     string
		main     string // main.go (types and providers)
		decl     string // kessoku.go
		injector string
		calls    []string // providers the injector must call, each exactly once
		nocalls  []string // providers it must not mention
		async    bool     // the injector must be concurrent (context first, goroutines)
		lib      string   // optional helper package <dir>/lib
		lib2     string   // optional second helper package <dir>/lib2/lib (same package name as lib)
		decl2    string   // optional second kessoku file of the same package (other.go), processed in the same invocation
	}
	std := "package main\n" + types_
	cases := []tcase{
		{name: "inline_providers", main: std,
			decl:     "package main\n\nimport \"github.com/mazrean/kessoku\"\n\nvar _ = kessoku.Inject[*App](\"InitApp\", kessoku.Provide(NewProdConfig), kessoku.Provide(NewApp))\n",
			injector: "InitApp", calls: []string{"NewProdConfig", "NewApp"}, nocalls: []string{"NewDevConfig"}},
		{name: "set_variable", main: std,
			decl:     "package main\n\nimport \"github.com/mazrean/kessoku\"\n\nvar ProdSet = kessoku.Set(kessoku.Provide(NewProdConfig))\n\nvar _ = kessoku.Inject[*App](\"InitApp\", ProdSet, kessoku.Provide(NewApp))\n",
			injector: "InitApp", calls: []string{"NewProdConfig", "NewApp"}, nocalls: []string{"NewDevConfig"}},
		{name: "two_set_variables_in_one_spec", main: std,
			decl:     "package main\n\nimport \"github.com/mazrean/kessoku\"\n\nvar DevSet, ProdSet = kessoku.Set(kessoku.Provide(NewDevConfig)), kessoku.Set(kessoku.Provide(NewProdConfig))\n\nvar _ = kessoku.Inject[*App](\"InitApp\", ProdSet, kessoku.Provide(NewApp))\n\nvar _ = DevSet\n",
			injector: "InitApp", calls: []string{"NewProdConfig", "NewApp"}, nocalls: []string{"NewDevConfig"}},
		{name: "grouped_var_block_second_set", main: std,
			decl:     "package main\n\nimport \"github.com/mazrean/kessoku\"\n\nvar (\n\tDevSet  = kessoku.Set(kessoku.Provide(NewDevConfig))\n\tProdSet = kessoku.Set(kessoku.Provide(NewProdConfig), kessoku.Provide(NewDB))\n)\n\nvar _ = kessoku.Inject[*App](\"InitApp\", ProdSet, kessoku.Provide(NewCache), kessoku.Provide(NewAppDB))\n\nvar _ = DevSet\n",
			injector: "InitApp", calls: []string{"NewProdConfig", "NewDB", "NewCache", "NewAppDB"}, nocalls: []string{"NewDevConfig"}},
		{name: "nested_sets", main: std,
			decl:     "package main\n\nimport \"github.com/mazrean/kessoku\"\n\nvar Base = kessoku.Set(kessoku.Provide(NewProdConfig))\nvar Data = kessoku.Set(Base, kessoku.Provide(NewDB), kessoku.Provide(NewCache))\n\nvar _ = kessoku.Inject[*App](\"InitApp\", Data, kessoku.Provide(NewAppDB))\n",
			injector: "InitApp", calls: []string{"NewProdConfig", "NewDB", "NewCache", "NewAppDB"}},
		{name: "async_inside_bind", main: std,
			decl:     "package main\n\nimport \"github.com/mazrean/kessoku\"\n\nvar _ = kessoku.Inject[*App](\"InitApp\",\n\tkessoku.Bind[Store](kessoku.Async(kessoku.Provide(NewMemStore))),\n\tkessoku.Bind[Queue](kessoku.Async(kessoku.Provide(NewMemQueue))),\n\tkessoku.Async(kessoku.Provide(NewMetrics)),\n\tkessoku.Provide(NewAppStores))\n",
			injector: "InitApp", calls: []string{"NewMemStore", "NewMemQueue", "NewMetrics", "NewAppStores"}, async: true},
		{name: "bind_inside_async", main: std,
			decl:     "package main\n\nimport \"github.com/mazrean/kessoku\"\n\nvar _ = kessoku.Inject[*App](\"InitApp\",\n\tkessoku.Async(kessoku.Bind[Store](kessoku.Provide(NewMemStore))),\n\tkessoku.Async(kessoku.Bind[Queue](kessoku.Provide(NewMemQueue))),\n\tkessoku.Provide(NewMetrics),\n\tkessoku.Provide(NewAppStores))\n",
			injector: "InitApp", calls: []string{"NewMemStore", "NewMemQueue", "NewMetrics", "NewAppStores"}, async: true},
		{name: "only_bound_async", main: std,
			decl:     "package main\n\nimport \"github.com/mazrean/kessoku\"\n\nvar _ = kessoku.Inject[*App](\"InitApp\",\n\tkessoku.Bind[Store](kessoku.Async(kessoku.Provide(NewMemStore))),\n\tkessoku.Bind[Queue](kessoku.Async(kessoku.Provide(NewMemQueue))),\n\tkessoku.Provide(NewMetrics),\n\tkessoku.Provide(NewAppStores))\n",
			injector: "InitApp", calls: []string{"NewMemStore", "NewMemQueue", "NewMetrics", "NewAppStores"}, async: true},
		{name: "aliased_imports",
			main:     "package main\n\nimport stdhttp \"net/http\"\n\ntype Timeout struct{}\n\nfunc NewTimeout() *Timeout { return &Timeout{} }\nfunc NewClient(t *Timeout) *stdhttp.Client { return &stdhttp.Client{} }\nfunc main() {}\n",
			decl:     "package main\n\nimport (\n\tstdhttp \"net/http\"\n\n\tk \"github.com/mazrean/kessoku\"\n)\n\nvar _ = k.Inject[*stdhttp.Client](\"InitClient\", k.Provide(NewTimeout), k.Provide(NewClient))\n",
			injector: "InitClient", calls: []string{"NewTimeout", "NewClient"}},
		{name: "own_generic_with_imported_argument",
			main:     "package main\n\nimport \"time\"\n\ntype Box[T any] struct{ v T }\ntype Service struct{}\n\nfunc NewService(b *Box[time.Duration]) *Service { return &Service{} }\nfunc main() {}\n",
			decl:     "package main\n\nimport \"github.com/mazrean/kessoku\"\n\nvar _ = kessoku.Inject[*Service](\"InitService\", kessoku.Provide(NewService))\n",
			injector: "InitService", calls: []string{"NewService"}},
		{name: "argument_of_imported_type_not_imported_by_the_file",
			main:     "package main\n\nimport (\n\t\"net/url\"\n\t\"time\"\n)\n\ntype Service struct{}\n\nfunc NewService(u *url.URL, d time.Duration, m map[string][]*url.Userinfo) *Service { return &Service{} }\nfunc main() {}\n",
			decl:     "package main\n\nimport \"github.com/mazrean/kessoku\"\n\nvar _ = kessoku.Inject[*Service](\"InitService\", kessoku.Provide(NewService))\n",
			injector: "InitService", calls: []string{"NewService"}},
	}
	// a provider of ANOTHER package whose parameter type comes from a package the user's package does not import, while
	// the user's package already uses that package's name for something else: the import must be renamed AND the type
	// spelled with the new name (main.go gets the import path of the helper package, which lives below the case's directory)
	cases = append(cases, tcase{name: "renamed_import_of_a_transitive_type",
		main:     "package main\n\nimport \"LIBPATH\"\n\nvar url = \"the user's own identifier called url\"\n\ntype App struct{}\n\nfunc NewApp(c *lib.Client) *App { _ = url; return &App{} }\nfunc main() {}\n",
		decl:     "package main\n\nimport (\n\t\"github.com/mazrean/kessoku\"\n\n\t\"LIBPATH\"\n)\n\nvar _ = kessoku.Inject[*App](\"InitApp\", kessoku.Provide(lib.NewClient), kessoku.Provide(NewApp))\n",
		injector: "InitApp", calls: []string{"lib.NewClient", "NewApp"}, lib: "package lib\n\nimport \"net/url\"\n\ntype Client struct{ u *url.URL }\n\nfunc NewClient(u *url.URL) *Client { return &Client{u} }\n"})
	// two packages with the SAME name, neither imported by the user's file: the second import must be renamed and the
	// second type spelled with the new name (spelled with the old one it would silently denote the first package's type)
	cases = append(cases, tcase{name: "two_transitive_packages_with_one_name",
		main:     "package main\n\nimport (\n\t\"LIBPATH\"\n)\n\ntype App struct{}\n\nfunc NewApp(c *lib.Client) *App { return &App{} }\nfunc main() {}\n",
		decl:     "package main\n\nimport (\n\t\"github.com/mazrean/kessoku\"\n\n\t\"LIBPATH\"\n)\n\nvar _ = kessoku.Inject[*App](\"InitApp\", kessoku.Provide(lib.NewClient), kessoku.Provide(NewApp))\n",
		injector: "InitApp", calls: []string{"lib.NewClient", "NewApp"},
		lib:  "package lib\n\nimport (\n\ta \"LIBPATH/one/opts\"\n\tb \"LIBPATH/two/opts\"\n)\n\ntype Client struct{}\n\nfunc NewClient(x *a.Options, y *b.Options) *Client { return &Client{} }\n",
		lib2: "package opts\n\ntype Options struct{}\n"})
	// value providers, a struct expansion written by the user, an injector argument
	cases = append(cases, tcase{name: "value_struct_expansion_and_argument", main: std,
		decl:     "package main\n\nimport \"github.com/mazrean/kessoku\"\n\ntype Settings struct {\n\tName string\n\tPort int\n}\n\ntype Server struct{}\n\nfunc NewServer(name string, port int, m *Metrics) *Server { return &Server{} }\n\nvar _ = kessoku.Inject[*Server](\"InitServer\", kessoku.Value(&Settings{Name: \"x\", Port: 1}), kessoku.Struct[*Settings](), kessoku.Provide(NewServer))\n",
		injector: "InitServer", calls: []string{"NewServer"}})
	// two kessoku files of one package in one invocation: the names chosen for the second file must not clash with the first
	cases = append(cases, tcase{name: "two_kessoku_files_in_one_invocation", main: std,
		decl:     "package main\n\nimport \"github.com/mazrean/kessoku\"\n\nvar _ = kessoku.Inject[*App](\"InitApp\", kessoku.Provide(NewProdConfig), kessoku.Provide(NewApp))\n",
		decl2:    "package main\n\nimport \"github.com/mazrean/kessoku\"\n\nvar _ = kessoku.Inject[*DB](\"InitDB\", kessoku.Provide(NewDevConfig), kessoku.Provide(NewDB))\n",
		injector: "InitApp", calls: []string{"NewProdConfig", "NewApp"}})
	evals := 0
	var samples []any
	for _, c := range cases {
		dir, err := os.MkdirTemp(".", "zz_verif_front_")
		if err != nil {
			res.Failures = append(res.Failures, kvcFailure{Name: "setup", Detail: err.Error()})
			return
		}
		func() {
			defer os.RemoveAll(dir)
			if c.lib != "" {
				libPath := "github.com/mazrean/kessoku/internal/kessoku/" + filepath.Base(dir) + "/lib"
				c.main = strings.ReplaceAll(c.main, "LIBPATH", libPath)
				c.decl = strings.ReplaceAll(c.decl, "LIBPATH", libPath)
				c.lib = strings.ReplaceAll(c.lib, "LIBPATH", libPath)
				_ = os.MkdirAll(filepath.Join(dir, "lib"), 0o755)
				_ = os.WriteFile(filepath.Join(dir, "lib", "lib.go"), []byte(c.lib), 0o644)
				if c.lib2 != "" {
					for _, sub := range []string{"one", "two"} {
						_ = os.MkdirAll(filepath.Join(dir, "lib", sub, "opts"), 0o755)
						_ = os.WriteFile(filepath.Join(dir, "lib", sub, "opts", "opts.go"), []byte(c.lib2), 0o644)
					}
				}
			}
			fail := func(kind, detail string) {
				res.Failures = append(res.Failures, kvcFailure{Name: kind + "[" + c.name + "]", Detail: detail, Input: map[string]any{"kessoku.go": c.decl, "main.go": c.main}})
			}
			src := filepath.Join(dir, "kessoku.go")
			out := filepath.Join(dir, "kessoku_band.go")
			_ = os.WriteFile(filepath.Join(dir, "main.go"), []byte(c.main), 0o644)
			_ = os.WriteFile(src, []byte(c.decl), 0o644)
			evals++
			files := []string{src}
			if c.decl2 != "" {
				_ = os.WriteFile(filepath.Join(dir, "other.go"), []byte(c.decl2), 0o644)
				files = append(files, filepath.Join(dir, "other.go"))
			}
			if err := NewProcessor().ProcessFiles(files); err != nil {
				fail("accepted_declaration_refused", err.Error())
				return
			}
			gen, err := os.ReadFile(out)
			if err != nil {
				fail("no_output_file", err.Error())
				return
			}
			if len(samples) < 2 {
				samples = append(samples, map[string]any{"case": c.name, "output_bytes": len(gen)})
			}
			// C04: the package with the generated file type-checks
			abs, _ := filepath.Abs(dir)
			pkgs, lerr := packages.Load(&packages.Config{Mode: packages.NeedName | packages.NeedFiles | packages.NeedSyntax | packages.NeedTypes | packages.NeedTypesInfo | packages.NeedImports | packages.NeedDeps, Dir: abs}, ".")
			if lerr != nil || len(pkgs) != 1 {
				fail("output_does_not_compile", fmt.Sprintf("cannot load the package: %v", lerr))
				return
			}
			if len(pkgs[0].Errors) > 0 {
				var msgs []string
				for _, e := range pkgs[0].Errors {
					msgs = append(msgs, e.Msg)
				}
				fail("output_does_not_compile", strings.Join(msgs, "; ")+"\n"+string(gen))
				return
			}
			// the injector
			f, perr := parser.ParseFile(token.NewFileSet(), out, gen, 0)
			if perr != nil {
				fail("output_does_not_compile", perr.Error())
				return
			}
			var fn *ast.FuncDecl
			for _, d := range f.Decls {
				if fd, ok := d.(*ast.FuncDecl); ok && fd.Name.Name == c.injector {
					fn = fd
				}
			}
			if fn == nil {
				fail("injector_missing", "no function "+c.injector+" in the output\n"+string(gen))
				return
			}
			called := map[string]int{}
			goroutines := 0
			ast.Inspect(fn.Body, func(n ast.Node) bool {
				call, ok := n.(*ast.CallExpr)
				if !ok {
					return true
				}
				if sel, ok := call.Fun.(*ast.SelectorExpr); ok {
					if id, ok := sel.X.(*ast.Ident); ok && id.Name == "eg" && sel.Sel.Name == "Go" {
						goroutines++
					}
					// <pkg>.Provide(F) / <pkg>.Value(...)
					if sel.Sel.Name == "Provide" && len(call.Args) == 1 {
						if id, ok := call.Args[0].(*ast.Ident); ok {
							called[id.Name]++
						}
						if se, ok := call.Args[0].(*ast.SelectorExpr); ok {
							called[exprString(se)]++
						}
					}
				}
				return true
			})
			var got []string
			for k, n := range called {
				got = append(got, fmt.Sprintf("%s x%d", k, n))
			}
			sort.Strings(got)
			for _, want := range c.calls {
				if called[want] != 1 {
					fail("declared_provider_not_called_once", fmt.Sprintf("%s is called %d times; the injector calls %v\n%s", want, called[want], got, gen))
					return
				}
			}
			for _, no := range c.nocalls {
				if called[no] != 0 || strings.Contains(string(gen), no) {
					fail("undeclared_provider_used", fmt.Sprintf("%s is not part of the declaration; the injector calls %v\n%s", no, got, gen))
					return
				}
			}
			if len(called) != len(c.calls) {
				fail("undeclared_provider_used", fmt.Sprintf("the injector calls %v, the declaration names %v", got, c.calls))
				return
			}
			ctxFirst := fn.Type.Params != nil && len(fn.Type.Params.List) > 0 && exprString(fn.Type.Params.List[0].Type) == "context.Context"
			if c.async && (!ctxFirst || goroutines == 0) {
				fail("async_declaration_not_concurrent", fmt.Sprintf("providers are declared Async but the injector has context first=%v and %d goroutines\n%s", ctxFirst, goroutines, gen))
			}
			if !c.async && goroutines != 0 {
				fail("goroutines_without_async", fmt.Sprintf("no provider is declared Async but the injector starts %d goroutines\n%s", goroutines, gen))
			}
		}()
	}
	res.Evidence["evaluations"] = evals
	res.Evidence["distinct_nontrivial"] = evals
	res.Evidence["bound"] = fmt.Sprintf("%d hand-written packages (Sets by variable - single, several names in one spec, grouped block, nested; Bind/Async in both nesting orders; aliased imports; generic and imported argument types)", len(cases))
	res.Evidence["samples"] = samples
}

func exprString(e ast.Expr) string {
	switch x := e.(type) {
	case *ast.Ident:
		return x.Name
	case *ast.SelectorExpr:
		return exprString(x.X) + "." + x.Sel.Name
	case *ast.StarExpr:
		return "*" + exprString(x.X)
	}
	return fmt.Sprintf("%T", e)
}

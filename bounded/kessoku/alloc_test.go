//go:build verif

package kessoku

import (
	"encoding/json"
	"fmt"
	"go/token"
	"go/types"
	"os"
	"sort"
	"strings"
	"testing"
	"unicode"
)

// TestVerifBoundedAlloc executes the real allocator over every request history
// up to a bound and checks the property-level statement of C12 directly:
// names handed out in one invocation are pairwise distinct and never a
// keyword, a predeclared identifier or a registered user identifier.
// It is (a) the replay / counterexample search for failed allocator
// obligations (seeded with the strings of the solver model), (b) a run-time
// cross-check of the proved contracts. Labelled bounded; never counted as proof.
func TestVerifBoundedAlloc(t *testing.T) {
	alphabet := []string{"a", "a0", "a1", "aCh", "aCh0", "type", "err"}
	seeded := false
	for _, s := range kvcModelStrings() {
		seeded = true
		alphabet = append(alphabet, s)
		// the stem of a suffixed name is the base that collides with it
		stem := strings.TrimRightFunc(s, unicode.IsDigit)
		if stem != s && stem != "" {
			alphabet = append(alphabet, stem)
		}
	}
	if in := os.Getenv("KVC_REPLAY_INPUT"); in != "" {
		var h []string
		_ = json.Unmarshal([]byte(in), &h)
		res := &kvcResult{Evidence: map[string]any{"evaluations": 1, "distinct_nontrivial": 1, "samples": []any{h}}}
		if d := runAllocHistory(h); d != "" {
			res.Failures = append(res.Failures, kvcFailure{Name: "names_pairwise_distinct", Detail: d, Input: h})
		}
		res.emit()
		return
	}
	alphabet = dedup(alphabet)
	maxLen := 4
	if kvcTier() == "thorough" {
		maxLen = 5
	}
	_ = seeded
	// a request is "n:<base>" (GetName), "t:<base>" (Get of a named type whose base name is <base>),
	// "c:<base>" (GetChannel of that type) or "r:<base>" (registration of a user identifier: result discarded)
	var reqs []string
	for _, a := range alphabet {
		reqs = append(reqs, "n:"+a, "r:"+a)
		if typeNameFor(a) != "" {
			reqs = append(reqs, "c:"+a)
		}
	}
	evals, nontrivial := 0, 0
	var samples []any
	res := &kvcResult{}
	var rec func(h []string)
	rec = func(h []string) {
		if len(res.Failures) > 0 {
			return
		}
		if len(h) > 0 {
			evals++
			if d := runAllocHistory(h); d != "" {
				res.Failures = append(res.Failures, kvcFailure{Name: "names_pairwise_distinct", Detail: d, Input: append([]string{}, h...)})
				return
			}
			if historyNontrivial(h) {
				nontrivial++
				if len(samples) < 3 && len(h) == maxLen {
					samples = append(samples, append([]string{}, h...))
				}
			}
		}
		if len(h) == maxLen {
			return
		}
		for _, r := range reqs {
			// prune: histories are explored up to maxLen over the full request alphabet only in thorough mode;
			// quick mode restricts positions after the third to requests sharing a stem with an earlier one
			if len(h) >= 3 && !sharesStem(h, r) {
				continue
			}
			rec(append(h, r))
		}
	}
	rec(nil)
	if len(samples) == 0 {
		samples = append(samples, []string{"n:a", "n:a", "n:a0"})
	}
	res.Evidence = map[string]any{
		"labelled": "bounded - not proof", "evaluations": evals, "distinct_nontrivial": nontrivial,
		"rule":       fmt.Sprintf("all request histories of length <= %d over %d request kinds (GetName / GetChannel / registration x alphabet %v closed under digit and Ch suffixing, plus the strings of the solver model when replaying); non-trivial = some base name is requested twice or a base equals a suffixed form of another", maxLen, len(reqs), alphabet),
		"exhaustive": false, "samples": samples, "max_len": maxLen,
	}
	res.emit()
}

func dedup(xs []string) []string {
	seen := map[string]bool{}
	var out []string
	for _, x := range xs {
		if !seen[x] {
			seen[x] = true
			out = append(out, x)
		}
	}
	sort.Strings(out)
	return out
}

func stemOf(s string) string {
	s = strings.TrimRightFunc(s, unicode.IsDigit)
	s = strings.TrimSuffix(s, "Ch")
	return strings.TrimRightFunc(s, unicode.IsDigit)
}

func sharesStem(h []string, r string) bool {
	for _, x := range h {
		if stemOf(x[2:]) == stemOf(r[2:]) {
			return true
		}
	}
	return false
}

func historyNontrivial(h []string) bool {
	for i := range h {
		for j := 0; j < i; j++ {
			if stemOf(h[i][2:]) == stemOf(h[j][2:]) {
				return true
			}
		}
	}
	return false
}

// typeNameFor returns an exported type name whose allocator base name is base ("" if none).
func typeNameFor(base string) string {
	if base == "" || !unicode.IsLower(rune(base[0])) {
		return ""
	}
	for _, r := range base {
		if !(unicode.IsLetter(r) || unicode.IsDigit(r)) {
			return ""
		}
	}
	return strings.ToUpper(base[:1]) + base[1:]
}

func namedTypeFor(base string) types.Type {
	pkg := types.NewPackage("example.com/p", "p")
	return types.NewNamed(types.NewTypeName(token.NoPos, pkg, typeNameFor(base), nil), types.NewStruct(nil, nil), nil)
}

// runAllocHistory runs one history on a fresh real pool; returns "" or a description of the violation.
func runAllocHistory(h []string) string {
	p := NewVarPool()
	reserved := map[string]string{}
	for _, k := range goReservedKeywords {
		reserved[k] = "keyword"
	}
	for _, k := range goPredeclaredIdentifiers {
		reserved[k] = "predeclared identifier"
	}
	issuedBy := map[string]int{}
	for i, r := range h {
		kind, base := r[:1], r[2:]
		var got string
		switch kind {
		case "n":
			got = p.GetName(base)
		case "t":
			got = p.Get(namedTypeFor(base))
		case "c":
			got = p.GetChannel(namedTypeFor(base))
		case "r":
			_ = p.GetName(base)
			if _, ok := reserved[base]; !ok {
				reserved[base] = fmt.Sprintf("user identifier registered by request %d", i)
			}
			continue
		}
		if why, bad := reserved[got]; bad {
			return fmt.Sprintf("history %v: request %d (%s) returned %q, which is a %s", h, i, r, got, why)
		}
		if j, dup := issuedBy[got]; dup {
			return fmt.Sprintf("history %v: requests %d and %d both returned %q", h, j, i, got)
		}
		issuedBy[got] = i
	}
	return ""
}

//go:build verif

package kessoku

import (
	"fmt"
	"go/ast"
	"go/token"
	"go/types"
	"math/rand"
	"sort"
	"strings"
	"testing"
	"time"
)

// ---------------------------------------------------------------------------
// Bounded, executed check of the declaration -> injector-plan stage (real NewGraph / Build /
// buildStmts, through CreateInjector) over enumerated declarations.
//
// It stands in (labelled bounded, never counted as proof) for the obligations of Build,
// topologicalSortIter, buildStmts and NewGraph that are not discharged deductively, it checks the
// PRECONDITIONS under which the statement emitters were proved (so that the proved contracts
// compose with the unproved planner), and it is the counterexample search / replay for failed
// obligations of the graph functions.
// ---------------------------------------------------------------------------

type declProvider struct {
	Req      []int // required type ids (>= 100: injector argument types, 99: context.Context)
	Async    bool  `json:",omitempty"`
	Fallible bool  `json:",omitempty"`
	Extra    bool  `json:",omitempty"` // provides a second result group (type id 50+k)
	Bind     bool  `json:",omitempty"` // first group also provides an interface type (id 70+k)
	Struct   []int `json:",omitempty"` // Struct expansion of the first result: field type ids (30+..)
}

type decl struct {
	P      []declProvider
	Order  []int  // declaration order (permutation of provider indices)
	Return int    // requested type id
	Plant  string `json:",omitempty"` // "", "cycle:<from>-><to>", "dup:<k>", "orphan"
}

var declPkg = types.NewPackage("example.com/p", "p")
var declTypes = map[int]types.Type{}

func declType(id int) types.Type {
	if t, ok := declTypes[id]; ok {
		return t
	}
	var t types.Type
	if id == 99 {
		ctxPkg := types.NewPackage("context", "context")
		t = types.NewNamed(types.NewTypeName(token.NoPos, ctxPkg, "Context", nil), types.NewInterfaceType(nil, nil), nil)
	} else {
		t = types.NewNamed(types.NewTypeName(token.NoPos, declPkg, fmt.Sprintf("T%d", id), nil), types.NewStruct(nil, nil), nil)
	}
	declTypes[id] = t
	return t
}

// provides returns the type ids provider k supplies, per result group.
func (d *decl) provides(k int) [][]int {
	g := [][]int{{k}}
	if d.P[k].Bind {
		g[0] = append(g[0], 70+k)
	}
	if d.P[k].Extra {
		g = append(g, []int{50 + k})
	}
	return g
}

func (d *decl) build() (*MetaData, *BuildDirective) {
	md := &MetaData{Package: Package{Name: "p", Path: "example.com/p"}, Imports: map[string]*Import{}}
	bd := &BuildDirective{InjectorName: "Init", Return: &Return{Type: declType(d.Return), ASTTypeExpr: ast.NewIdent(fmt.Sprintf("T%d", d.Return))}}
	order := d.Order
	if order == nil {
		for k := range d.P {
			order = append(order, k)
		}
	}
	for _, k := range order {
		p := d.P[k]
		ps := &ProviderSpec{Type: ProviderTypeFunction, ASTExpr: ast.NewIdent(fmt.Sprintf("prov%d", k)), IsAsync: p.Async, IsReturnError: p.Fallible,
			ReferencedImports: map[string]*Import{}}
		for _, g := range d.provides(k) {
			var ts []types.Type
			for _, id := range g {
				ts = append(ts, declType(id))
			}
			ps.Provides = append(ps.Provides, ts)
		}
		for _, r := range p.Req {
			ps.Requires = append(ps.Requires, declType(r))
		}
		bd.Providers = append(bd.Providers, ps)
		if len(p.Struct) > 0 {
			// kessoku.Async(kessoku.Struct[T]()) is accepted by the parser: the expansion of an Async provider's result is
			// declared Async too (the field reads themselves must stay synchronous steps of the producer's thread)
			sp := &ProviderSpec{Type: ProviderTypeStruct, StructType: declType(k), ReferencedImports: map[string]*Import{}, IsAsync: p.Async}
			for i, f := range p.Struct {
				sp.StructFields = append(sp.StructFields, &StructFieldSpec{Type: declType(f), Name: fmt.Sprintf("F%d", f), Index: i})
			}
			bd.Providers = append(bd.Providers, sp)
		}
	}
	switch {
	case strings.HasPrefix(d.Plant, "dup:"):
		var k int
		fmt.Sscanf(d.Plant, "dup:%d", &k)
		bd.Providers = append(bd.Providers, &ProviderSpec{Type: ProviderTypeFunction, ASTExpr: ast.NewIdent("dup"), Provides: [][]types.Type{{declType(k)}},
			ReferencedImports: map[string]*Import{}})
	case strings.HasPrefix(d.Plant, "dupfield:"):
		// a struct expansion with two exported fields of the same type: two suppliers of that type
		var k int
		fmt.Sscanf(d.Plant, "dupfield:%d", &k)
		bd.Providers = append(bd.Providers, &ProviderSpec{Type: ProviderTypeStruct, StructType: declType(k), ReferencedImports: map[string]*Import{},
			StructFields: []*StructFieldSpec{{Type: declType(96), Name: "FA", Index: 0}, {Type: declType(96), Name: "FB", Index: 1}}})
	case d.Plant == "orphan":
		bd.Providers = append(bd.Providers, &ProviderSpec{Type: ProviderTypeStruct, StructType: declType(98), ReferencedImports: map[string]*Import{},
			StructFields: []*StructFieldSpec{{Type: declType(97), Name: "F", Index: 0}}})
	}
	return md, bd
}

// supplier returns (provider index, result group, isField, fieldIdx) for a type id; ok=false if it is an injector argument.
func (d *decl) supplier(id int) (k, group int, field bool, ok bool) {
	for k := range d.P {
		for g, ids := range d.provides(k) {
			for _, x := range ids {
				if x == id {
					return k, g, false, true
				}
			}
		}
		for _, f := range d.P[k].Struct {
			if f == id {
				return k, 0, true, true
			}
		}
	}
	return 0, 0, false, false
}

// needed computes the providers (and field reads) reachable from the requested type.
func (d *decl) needed() (provs map[int]bool, fields map[int]bool, args []int) {
	provs, fields = map[int]bool{}, map[int]bool{}
	seenArg := map[int]bool{}
	var visit func(id int)
	visit = func(id int) {
		k, _, isField, ok := d.supplier(id)
		if !ok {
			if !seenArg[id] {
				seenArg[id] = true
				args = append(args, id)
			}
			return
		}
		if isField {
			if fields[id] {
				return
			}
			fields[id] = true
			visit(k) // the struct value
			return
		}
		if provs[k] {
			return
		}
		provs[k] = true
		for _, r := range d.P[k].Req {
			visit(r)
		}
	}
	visit(d.Return)
	return
}

func typeID(t types.Type) int {
	n := t.(*types.Named).Obj().Name()
	if n == "Context" {
		return 99
	}
	var id int
	fmt.Sscanf(n, "T%d", &id)
	return id
}

// ---------------------------------------------------------------------------
// The abstract thread program read off Injector.Stmts
// ---------------------------------------------------------------------------

type planStep struct {
	thread, pos int
	call        *InjectorProviderCallStmt
	field       *InjectorFieldAccessStmt
}

func planOf(inj *Injector) (steps []*planStep, threads [][]*planStep, err string) {
	var main []*planStep
	addTo := func(th int, list *[]*planStep, s InjectorStmt) string {
		st := &planStep{thread: th, pos: len(*list)}
		switch x := s.(type) {
		case *InjectorProviderCallStmt:
			st.call = x
		case *InjectorFieldAccessStmt:
			st.field = x
		default:
			return fmt.Sprintf("unexpected statement %T inside a thread", s)
		}
		*list = append(*list, st)
		steps = append(steps, st)
		return ""
	}
	threads = append(threads, nil) // thread 0 = the injector's own flow
	sawMain := false
	for _, s := range inj.Stmts {
		if ch, ok := s.(*InjectorChainStmt); ok {
			if sawMain {
				return nil, nil, "a goroutine is started after the injector's own flow has begun (spawns must come first)"
			}
			var list []*planStep
			for _, cs := range ch.Statements {
				if e := addTo(len(threads), &list, cs); e != "" {
					return nil, nil, e
				}
			}
			threads = append(threads, list)
			continue
		}
		sawMain = true
		if e := addTo(0, &main, s); e != "" {
			return nil, nil, e
		}
	}
	threads[0] = main
	return steps, threads, ""
}

func (s *planStep) args() []*InjectorCallArgument {
	if s.call != nil {
		return s.call.Arguments
	}
	return []*InjectorCallArgument{{Param: s.field.StructParam}}
}

func (s *planStep) rets() []*InjectorParam {
	if s.call != nil {
		return s.call.Returns
	}
	return []*InjectorParam{s.field.ReturnParam}
}

// checkPlan checks the structural statements of C01, C02, C03, C05, C06, C10 and the emitters' preconditions
// on the plan of one accepted declaration. It returns "" or a description naming the violated clause.
func checkPlan(d *decl, inj *Injector) (clause, detail string) {
	steps, threads, perr := planOf(inj)
	if perr != "" {
		return "C01.thread_structure", perr
	}
	provs, fields, argIDs := d.needed()
	// ---- C02: every needed provider exactly once, nothing else
	seenProv := map[int]int{}
	seenField := map[int]int{}
	producer := map[*InjectorParam]*planStep{}
	for _, s := range steps {
		if s.call != nil {
			var k int
			if _, e := fmt.Sscanf(s.call.Provider.ASTExpr.(*ast.Ident).Name, "prov%d", &k); e != nil {
				return "C02.only_declared_providers", "call of " + s.call.Provider.ASTExpr.(*ast.Ident).Name
			}
			seenProv[k]++
			if len(s.call.Returns) != len(d.provides(k)) {
				return "C02.result_arity", fmt.Sprintf("prov%d has %d result groups, the plan assigns %d", k, len(d.provides(k)), len(s.call.Returns))
			}
			if len(s.call.Arguments) != len(d.P[k].Req) {
				return "C02.argument_arity", fmt.Sprintf("prov%d takes %d inputs, the plan passes %d", k, len(d.P[k].Req), len(s.call.Arguments))
			}
		} else {
			seenField[typeID(s.field.Field.Type)]++
		}
		for _, r := range s.rets() {
			if r == nil {
				return "emitter_pre.returns_nonnil", "nil result parameter"
			}
			if producer[r] != nil {
				return "C01.single_assignment", "a variable is assigned by two statements"
			}
			producer[r] = s
		}
	}
	for k := range d.P {
		want := 0
		if provs[k] {
			want = 1
		}
		if seenProv[k] != want {
			return "C02.each_needed_provider_exactly_once", fmt.Sprintf("prov%d is invoked %d time(s), needed=%v", k, seenProv[k], provs[k])
		}
	}
	for f := range fields {
		if seenField[f] != 1 {
			return "C02.each_needed_field_read_exactly_once", fmt.Sprintf("field of type T%d read %d time(s)", f, seenField[f])
		}
	}
	// ---- injector arguments (C10)
	argParam := map[*InjectorParam]int{}
	var gotArgs []int
	for _, a := range inj.Args {
		if a == nil || a.Param == nil {
			return "emitter_pre.args_nonnil", "nil injector argument"
		}
		argParam[a.Param] = typeID(a.Type)
		gotArgs = append(gotArgs, typeID(a.Type))
	}
	anyAsync, anyFallible := false, false
	for k := range provs {
		anyAsync = anyAsync || d.P[k].Async
		anyFallible = anyFallible || d.P[k].Fallible
	}
	wantArgs := append([]int{}, argIDs...)
	hasCtx := false
	for _, a := range wantArgs {
		hasCtx = hasCtx || a == 99
	}
	if anyAsync && !hasCtx {
		wantArgs = append(wantArgs, 99)
	}
	a1, a2 := append([]int{}, gotArgs...), append([]int{}, wantArgs...)
	sort.Ints(a1)
	sort.Ints(a2)
	if fmt.Sprint(a1) != fmt.Sprint(a2) {
		return "C10.parameters_are_the_unsupplied_types", fmt.Sprintf("parameters %v, expected %v", gotArgs, wantArgs)
	}
	if anyAsync && (len(gotArgs) == 0 || gotArgs[0] != 99) {
		return "C10.context_first_when_async", fmt.Sprintf("parameters %v", gotArgs)
	}
	if inj.IsReturnError != anyFallible {
		return "C10.error_result_iff_needed_provider_fallible", fmt.Sprintf("IsReturnError=%v, a needed provider is fallible=%v", inj.IsReturnError, anyFallible)
	}
	// ---- C02 typed wiring + C01 happens-before per edge
	for _, s := range steps {
		var req []int
		if s.call != nil {
			var k int
			fmt.Sscanf(s.call.Provider.ASTExpr.(*ast.Ident).Name, "prov%d", &k)
			req = d.P[k].Req
		} else {
			k, _, _, _ := d.supplier(typeID(s.field.Field.Type))
			req = []int{k}
		}
		for i, a := range s.args() {
			if a == nil || a.Param == nil {
				return "C02.every_input_wired", fmt.Sprintf("input %d of a step is not wired", i)
			}
			if a.Param.refCounter <= 0 {
				return "emitter_pre.inputs_referenced", "an input variable has reference count 0 (it would be emitted as `_`)"
			}
			if id, isArg := argParam[a.Param]; isArg {
				if id != req[i] {
					return "C02.input_selected_by_type", fmt.Sprintf("input %d expects T%d, wired to parameter of type T%d", i, req[i], id)
				}
				continue
			}
			p := producer[a.Param]
			if p == nil {
				return "C02.input_has_producer", fmt.Sprintf("input %d (T%d) is wired to a variable nothing assigns", i, req[i])
			}
			// the variable must be the result group that supplies the required type
			ok := false
			for _, t := range a.Param.types {
				ok = ok || typeID(t) == req[i]
			}
			if !ok {
				return "C02.input_selected_by_type", fmt.Sprintf("input %d expects T%d, wired to a variable of another type", i, req[i])
			}
			if p.thread == s.thread {
				if p.pos >= s.pos {
					return "C01.same_thread_producer_first", fmt.Sprintf("T%d is consumed at position %d of thread %d but produced at %d", req[i], s.pos, s.thread, p.pos)
				}
				continue
			}
			if s.field != nil {
				return "C01.field_read_in_producer_thread", "a field read is scheduled in another thread than the struct's producer (field reads never wait)"
			}
			if !(a.IsWait && a.Param.withChannel) {
				return "C01.cross_thread_edge_waits", fmt.Sprintf("T%d is produced in thread %d and consumed in thread %d without a wait (IsWait=%v withChannel=%v)", req[i], p.thread, s.thread, a.IsWait, a.Param.withChannel)
			}
		}
		if s.call != nil {
			seen := map[*InjectorParam]bool{}
			for _, r := range s.call.Returns {
				if seen[r] {
					return "emitter_pre.returns_distinct", "a result variable appears twice"
				}
				seen[r] = true
				if r.withChannel && r.refCounter <= 0 {
					return "emitter_pre.channelled_results_referenced", "a result with a channel has reference count 0"
				}
			}
			if s.call.Provider.IsReturnError && !inj.IsReturnError {
				return "C06.fallible_only_with_error_result", "a fallible provider is scheduled in an injector without error result"
			}
		}
	}
	if inj.Return == nil || inj.Return.Param == nil || (producer[inj.Return.Param] == nil && argParam[inj.Return.Param] == 0) {
		return "C02.returns_requested_value", "the returned variable is not produced"
	}
	if inj.Return.Param.refCounter <= 0 {
		return "emitter_pre.return_referenced", "the returned variable has reference count 0"
	}
	okRet := false
	for _, t := range inj.Return.Param.types {
		okRet = okRet || typeID(t) == d.Return
	}
	if !okRet {
		return "C02.returns_requested_value", "the returned variable does not hold the requested type"
	}
	// ---- C03: fault-free termination (fixpoint execution of the thread program)
	pc := make([]int, len(threads))
	closed := map[*InjectorParam]bool{}
	for progress := true; progress; {
		progress = false
		for t, list := range threads {
			for pc[t] < len(list) {
				s := list[pc[t]]
				ready := true
				for _, a := range s.args() {
					if a.IsWait && a.Param.withChannel && !closed[a.Param] {
						ready = false
					}
				}
				if !ready {
					break
				}
				for _, r := range s.rets() {
					if r.withChannel {
						if closed[r] {
							return "C03.completion_signalled_once", "a completion channel is closed twice"
						}
						closed[r] = true
					}
				}
				pc[t]++
				progress = true
			}
		}
	}
	for t, list := range threads {
		if pc[t] < len(list) {
			return "C03.no_deadlock", fmt.Sprintf("thread %d is stuck at position %d waiting for a signal nobody sends", t, pc[t])
		}
	}
	// ---- C05: input-free Async providers run in pairwise different threads with no Async / waiting predecessor
	used := map[int]bool{}
	for _, s := range steps {
		if s.call == nil || !s.call.Provider.IsAsync || len(s.call.Arguments) != 0 {
			continue
		}
		if used[s.thread] {
			return "C05.input_free_async_in_distinct_threads", fmt.Sprintf("two input-free Async providers share thread %d", s.thread)
		}
		used[s.thread] = true
		for _, q := range threads[s.thread][:s.pos] {
			if q.call != nil && q.call.Provider.IsAsync {
				return "C05.no_async_predecessor", "an input-free Async provider is queued behind another Async provider"
			}
			for _, a := range q.args() {
				if a.IsWait && a.Param.withChannel {
					return "C05.no_waiting_predecessor", "an input-free Async provider is queued behind a statement that waits"
				}
			}
		}
	}
	return "", ""
}

// planFingerprint: threads, their statements in order, and the wait flag of every input.
func planFingerprint(inj *Injector) string {
	if inj == nil {
		return "<nil>"
	}
	_, threads, _ := planOf(inj)
	var b strings.Builder
	for _, a := range inj.Args {
		fmt.Fprintf(&b, "arg:T%d ", typeID(a.Type))
	}
	for t, list := range threads {
		fmt.Fprintf(&b, "| t%d:", t)
		for _, s := range list {
			if s.call != nil {
				b.WriteString(" " + s.call.Provider.ASTExpr.(*ast.Ident).Name + "(")
			} else {
				b.WriteString(" field" + s.field.Field.Name + "(")
			}
			for _, a := range s.args() {
				fmt.Fprintf(&b, "%v,", a.IsWait && a.Param.withChannel)
			}
			b.WriteString(")")
		}
	}
	fmt.Fprintf(&b, " err=%v", inj.IsReturnError)
	return b.String()
}

// nontrivialPlan: at least two threads or a cross-thread wait.
func nontrivialPlan(inj *Injector) bool {
	_, threads, _ := planOf(inj)
	n := 0
	for _, t := range threads {
		if len(t) > 0 {
			n++
		}
	}
	return n >= 2
}

// ---------------------------------------------------------------------------
// Enumeration
// ---------------------------------------------------------------------------

func enumDecls(n int, rng *rand.Rand, sample int, yield func(d *decl) bool) {
	// requirement choices for provider k: subsets of size <= 2 of {earlier providers' types, extra groups, fields, A=100, B=101, ctx=99}
	var rec func(k int, cur []declProvider) bool
	rec = func(k int, cur []declProvider) bool {
		if k == n {
			d := &decl{P: append([]declProvider{}, cur...), Return: n - 1}
			return yield(d)
		}
		var pool []int
		for j := 0; j < k; j++ {
			pool = append(pool, j)
			if cur[j].Extra {
				pool = append(pool, 50+j)
			}
			if cur[j].Bind {
				pool = append(pool, 70+j)
			}
			pool = append(pool, cur[j].Struct...)
		}
		pool = append(pool, 100, 99)
		var reqs [][]int
		reqs = append(reqs, nil)
		for a := 0; a < len(pool); a++ {
			reqs = append(reqs, []int{pool[a]})
			for b := 0; b < len(pool); b++ {
				if b != a {
					reqs = append(reqs, []int{pool[a], pool[b]})
				}
			}
		}
		for _, rq := range reqs {
			for flags := 0; flags < 16; flags++ {
				p := declProvider{Req: rq, Async: flags&1 != 0, Fallible: flags&2 != 0, Extra: flags&4 != 0, Bind: flags&8 != 0}
				if sample > 0 && rng.Intn(sample) != 0 {
					continue
				}
				if !rec(k+1, append(cur, p)) {
					return false
				}
				if !p.Extra && !p.Bind && k < n-1 && len(rq) <= 1 {
					ps := p
					ps.Struct = []int{30 + k}
					if !rec(k+1, append(cur, ps)) {
						return false
					}
				}
			}
		}
		return true
	}
	rec(0, nil)
}

func permutations(n int) [][]int {
	if n == 0 {
		return [][]int{{}}
	}
	var out [][]int
	for _, p := range permutations(n - 1) {
		for i := 0; i <= len(p); i++ {
			q := append(append(append([]int{}, p[:i]...), n-1), p[i:]...)
			out = append(out, q)
		}
	}
	return out
}

func TestVerifBoundedDecls(t *testing.T) {
	res := &kvcResult{}
	rng := rand.New(rand.NewSource(kvcSeed() + 1))
	evals, nontrivial, refused := 0, 0, 0
	var samples []any
	byClause := map[string]int{}
	fail := func(clause, detail string, d *decl) bool {
		byClause[clause]++
		if len(res.Failures) < 4 {
			res.Failures = append(res.Failures, kvcFailure{Name: clause, Detail: detail, Input: d})
		}
		return len(res.Failures) < 4
	}
	// wall-clock budget: the enumeration stops (without a failure) when it is used up, and the evidence says so
	budget := 90 * time.Second
	if kvcTier() == "thorough" {
		budget = 300 * time.Second
	}
	started := time.Now()
	phaseDeadline := started.Add(budget * 7 / 10)
	timedOut := false
	run := func(d *decl) bool {
		if evals%64 == 0 && time.Now().After(phaseDeadline) {
			timedOut = true
			return false
		}
		evals++
		md, bd := d.build()
		// the contracts kvc ASSUMES for NewGraph / topologicalSortIter / findMaximumAntichainSize, evaluated on the real code
		if evals%3 == 0 {
			mdA, bdA := d.build()
			if gA, errA := NewGraph(mdA, bdA, NewVarPool()); errA == nil {
				if msg := assumedPlannerContracts(gA); msg != "" {
					return fail("ASSUMED.planner_input_contracts", msg, d)
				}
			}
		}
		inj, err := CreateInjector(md, bd, NewVarPool())
		if d.Plant != "" {
			if err == nil {
				return fail("C09.unsatisfiable_declaration_refused", "accepted although "+d.Plant, d)
			}
			refused++
			nontrivial++
			return true
		}
		if err != nil {
			return fail("C09.satisfiable_declaration_accepted", "refused: "+err.Error(), d)
		}
		if nontrivialPlan(inj) {
			nontrivial++
			if len(samples) < 3 && len(d.P) >= 3 {
				samples = append(samples, d)
			}
		}
		if c, det := checkPlan(d, inj); c != "" {
			return fail(c, det, d)
		}
		// C11: the plan is a function of the declaration (Go map iteration order varies between the builds)
		if evals%7 == 0 {
			want := planFingerprint(inj)
			for rep := 0; rep < 2; rep++ {
				md2, bd2 := d.build()
				inj2, err2 := CreateInjector(md2, bd2, NewVarPool())
				if err2 != nil || planFingerprint(inj2) != want {
					return fail("C11.plan_is_a_function_of_the_declaration", "two builds of the same declaration differ: "+want+" vs "+planFingerprint(inj2), d)
				}
			}
		}
		return true
	}
	// a fixed family the enumeration below is too small for: k input-free Async providers feeding a comb of joiners, so
	// that they sit at different depths below the requested value (C05: the number of threads must still cover them all)
	for k := 2; k <= 5 && len(res.Failures) < 4; k++ {
		for mask := 0; mask < 4; mask++ { // joiners Async or not; root takes the last source directly or through a joiner
			d := &decl{}
			for i := 0; i < k; i++ {
				d.P = append(d.P, declProvider{Async: true})
			}
			prev := 0
			last := k - 1
			if mask&2 != 0 {
				last = k // every source goes through a joiner
			}
			for i := 1; i < last; i++ {
				d.P = append(d.P, declProvider{Async: mask&1 != 0, Req: []int{prev, i}})
				prev = len(d.P) - 1
			}
			root := declProvider{Req: []int{prev}}
			if last == k-1 && k-1 != prev {
				root.Req = append(root.Req, k-1)
			}
			d.P = append(d.P, root)
			d.Return = len(d.P) - 1
			n := len(d.P)
			orders := [][]int{nil, nil, rng.Perm(n), rng.Perm(n)}
			for i := 0; i < n; i++ {
				orders[0] = append(orders[0], i)
				orders[1] = append(orders[1], n-1-i)
			}
			for _, o := range orders {
				dd := *d
				dd.Order = o
				if !run(&dd) {
					break
				}
			}
		}
	}
	// a provider that takes the SAME type twice (func NewCluster(primary, replica *DB)): two edges from one producer into
	// two slots of one consumer - the enumeration below never repeats a requirement
	for mask := 0; mask < 8 && len(res.Failures) < 4; mask++ {
		for _, dup := range []int{0, 100} { // a provided type / an injector argument type
			d := &decl{P: []declProvider{{Async: mask&1 != 0}, {Async: mask&2 != 0, Req: []int{dup, dup}}, {Async: mask&4 != 0, Req: []int{1, 0}}}, Return: 2}
			for _, o := range [][]int{{0, 1, 2}, {2, 1, 0}, {1, 0, 2}} {
				dd := *d
				dd.Order = o
				if !run(&dd) {
					break
				}
			}
		}
	}
	maxN := 3
	if kvcTier() == "thorough" {
		maxN = 4
	}
	thin := 10
	if kvcTier() == "thorough" {
		thin = 3
	}
	for n := 1; n <= maxN && len(res.Failures) < 4; n++ {
		sample := 0
		if n == maxN {
			sample = thin // the largest size is thinned out (seeded)
		}
		perms := permutations(n)
		enumDecls(n, rng, sample, func(d *decl) bool {
			// every declaration order for n <= 3, a few sampled ones above
			for pi, perm := range perms {
				if n > 3 && pi%5 != int(kvcSeed()%5+5)%5 {
					continue
				}
				dd := *d
				dd.Order = perm
				if !run(&dd) {
					return false
				}
			}
			// planted defects on the identity order (every declaration in thorough mode, 1 in 8 in quick mode)
			if len(d.P) >= 2 && (kvcTier() == "thorough" || rng.Intn(8) == 0) {
				for from := 0; from < len(d.P); from++ {
					for to := from; to < len(d.P); to++ {
						if provs, _, _ := d.needed(); !provs[from] || !provs[to] {
							continue
						}
						dd := *d
						dd.P = append([]declProvider{}, d.P...)
						// back edge: provider `from` additionally requires the type of provider `to` which (transitively) needs `from`
						if !reaches(d, to, from) && to != from {
							continue
						}
						pp := dd.P[from]
						pp.Req = append(append([]int{}, pp.Req...), to)
						dd.P[from] = pp
						dd.Plant = fmt.Sprintf("cycle:%d->%d", from, to)
						if !run(&dd) {
							return false
						}
					}
				}
				dd := *d
				dd.Plant = fmt.Sprintf("dup:%d", len(d.P)-1)
				if !run(&dd) {
					return false
				}
				dd = *d
				dd.Plant = "orphan"
				if !run(&dd) {
					return false
				}
				if len(d.P[0].Struct) == 0 {
					dd = *d
					dd.Plant = "dupfield:0"
					if !run(&dd) {
						return false
					}
				}
			}
			return true
		})
	}
	// larger random declarations
	enumStopped := timedOut
	timedOut = false
	phaseDeadline = started.Add(budget)
	bigN := 6
	rounds := 3000
	if kvcTier() == "thorough" {
		bigN, rounds = 9, 60000
	}
	for i := 0; i < rounds && len(res.Failures) < 4; i++ {
		n := 4 + rng.Intn(bigN-3)
		d := &decl{Return: n - 1}
		for k := 0; k < n; k++ {
			p := declProvider{Async: rng.Intn(2) == 0, Fallible: rng.Intn(3) == 0, Extra: rng.Intn(4) == 0, Bind: rng.Intn(6) == 0}
			nreq := rng.Intn(3)
			if k == n-1 {
				nreq = 1 + rng.Intn(3)
			}
			for j := 0; j < nreq; j++ {
				switch c := rng.Intn(10); {
				case c == 0:
					p.Req = append(p.Req, 100+rng.Intn(2))
				case c == 1:
					p.Req = append(p.Req, 99)
				case k > 0:
					q := rng.Intn(k)
					id := q
					if d.P[q].Extra && rng.Intn(2) == 0 {
						id = 50 + q
					} else if len(d.P[q].Struct) > 0 && rng.Intn(2) == 0 {
						id = d.P[q].Struct[0]
					}
					dupReq := false
					for _, x := range p.Req {
						dupReq = dupReq || x == id
					}
					if !dupReq {
						p.Req = append(p.Req, id)
					}
				}
			}
			if !p.Extra && !p.Bind && rng.Intn(6) == 0 {
				p.Struct = []int{30 + k}
			}
			d.P = append(d.P, p)
		}
		d.Order = rng.Perm(n)
		if !run(d) {
			break
		}
	}
	var clauses []string
	for c, n := range byClause {
		clauses = append(clauses, fmt.Sprintf("%s x%d", c, n))
	}
	sort.Strings(clauses)
	if len(samples) == 0 {
		samples = append(samples, "no multi-thread plan among the enumerated declarations")
	}
	res.Evidence = map[string]any{
		"labelled": "bounded - executed on the real planner (CreateInjector), not counted as proof", "evaluations": evals, "distinct_nontrivial": nontrivial,
		"refused_planted_defects": refused, "samples": samples, "exhaustive": false, "violated_clauses": clauses,
		"time_budget_s": budget.Seconds(), "enumeration_stopped_on_time_budget": enumStopped, "random_phase_stopped_on_time_budget": timedOut, "wall_s": time.Since(started).Seconds(),
		"rule": fmt.Sprintf("declarations with <= %d providers enumerated in canonical form (<= 2 requirements each from earlier providers' results, extra result groups, bound interfaces, expanded struct fields, an argument type and context.Context; every Async / fallible / multi-value / Bind mask; struct expansion; every declaration order for <= 3 providers; the largest size thinned by the seed (1:10 quick, 1:3 thorough)), each also with planted back edges, a duplicate supplier, a struct expansion with two fields of one type and an orphan Struct; a fixed family of 2..5 input-free Async providers at different depths (comb of joiners, 4 shapes x 4 orders); a provider that takes one type twice (8 Async masks x provided/argument type x 3 orders); plus %d seeded random declarations with up to %d providers; non-trivial = the plan has >= 2 threads, or a planted defect", maxN, rounds, bigN),
	}
	res.emit()
}

// reaches: provider `from` (transitively) requires a result of provider `to`.
func reaches(d *decl, from, to int) bool {
	seen := map[int]bool{}
	var visit func(k int) bool
	visit = func(k int) bool {
		if k == to {
			return true
		}
		if seen[k] {
			return false
		}
		seen[k] = true
		for _, r := range d.P[k].Req {
			if q, _, _, ok := d.supplier(r); ok && visit(q) {
				return true
			}
		}
		return false
	}
	return visit(from)
}

// assumedPlannerContracts evaluates, on a graph the real NewGraph accepted, what the proof of (*Graph).Build assumes:
// graphWF (edges point at argument slots of provider nodes and name an existing value of their source, every slot is
// fed by exactly one edge, a field-access node has its struct slot, the return value is in range), the iterator contract (every node exactly once, every edge
// forward) and "at least one pool for a non-empty graph". Returns "" if all hold.
func assumedPlannerContracts(g *Graph) string {
	retCount := func(n *node) int {
		if n.providerSpec == nil {
			return 1
		}
		return len(n.providerSpec.Provides)
	}
	for _, n := range g.nodes {
		if n == nil || (n.arg != nil) == (n.providerSpec != nil) {
			return "graphWF: a node is neither exactly an argument nor exactly a provider"
		}
	}
	type slot struct {
		m *node
		d int
	}
	fed := map[slot]bool{}
	for n, es := range g.edges {
		for _, e := range es {
			if e == nil || e.node == nil || e.node.providerSpec == nil {
				return "graphWF: an edge does not point at a provider node"
			}
			if e.provideArgDst < 0 || e.provideArgDst >= len(e.node.providerArgs) {
				return fmt.Sprintf("graphWF: edge targets slot %d of a node with %d slots", e.provideArgDst, len(e.node.providerArgs))
			}
			if e.provideArgSrc < 0 || e.provideArgSrc >= retCount(n) {
				return fmt.Sprintf("graphWF: edge names value %d of a node with %d values", e.provideArgSrc, retCount(n))
			}
			if fed[slot{e.node, e.provideArgDst}] {
				return "graphWF: two edges feed the same argument slot"
			}
			fed[slot{e.node, e.provideArgDst}] = true
		}
	}
	for _, m := range g.nodes {
		if m.providerSpec == nil {
			// nodeDataPresent, argument: has its type expression and is used
			if m.arg.ASTTypeExpr == nil {
				return "nodeDataPresent: an argument node has no type expression"
			}
			if len(g.edges[m]) < 1 && (g.returnValue == nil || m != g.returnValue.node) {
				return "nodeDataPresent: an argument node is used by nobody"
			}
			continue
		}
		// nodeDataPresent, provider
		for _, imp := range m.providerSpec.ReferencedImports {
			if imp == nil {
				return "nodeDataPresent: a provider's import table has a nil entry"
			}
		}
		for _, grp := range m.providerSpec.Provides {
			if len(grp) < 1 {
				return "nodeDataPresent: a provider supplies an empty group of types"
			}
		}
		if m.providerSpec.Type == ProviderTypeFieldAccess && (m.providerSpec.SourceField == nil || len(m.providerSpec.Provides) < 1) {
			return "nodeDataPresent: a field-access provider lacks its field or its value"
		}
		if m.providerSpec.Type == ProviderTypeFieldAccess && (m.providerSpec.IsAsync || m.providerSpec.IsReturnError) {
			return "nodeDataPresent: a field-access provider is Async or fallible (the emitted read has no wait of its own)"
		}
		if m.providerSpec.Type == ProviderTypeFieldAccess && len(m.providerArgs) < 1 {
			return "topoOK: a field-access node has no argument slot"
		}
		for d := range m.providerArgs {
			if !fed[slot{m, d}] {
				return fmt.Sprintf("topoOK: argument slot %d of a provider node is fed by no edge", d)
			}
		}
	}
	if g.returnValue == nil || g.returnValue.node == nil || g.returnValue.returnIndex < 0 || g.returnValue.returnIndex >= retCount(g.returnValue.node) {
		return "graphWF: return value out of range"
	}
	pos := map[*node]int{}
	k := 0
	for n := range g.topologicalSortIter() {
		if _, dup := pos[n]; dup {
			return "iterator: a node is yielded twice"
		}
		pos[n] = k
		k++
	}
	if k != len(g.nodes) {
		return fmt.Sprintf("iterator: yields %d of %d nodes", k, len(g.nodes))
	}
	for n, es := range g.edges {
		for _, e := range es {
			pn, ok1 := pos[n]
			pm, ok2 := pos[e.node]
			if !ok1 || !ok2 || pn >= pm {
				return "iterator: an edge does not point forward in the yield order"
			}
		}
	}
	if _, ok := pos[g.returnValue.node]; !ok {
		return "iterator: the return node is not yielded"
	}
	if len(g.nodes) >= 1 && g.findMaximumAntichainSize() < 1 {
		return "findMaximumAntichainSize: no pool for a non-empty graph"
	}
	return ""
}

//go:build verif

package kessoku

import (
	"bytes"
	"fmt"
	"go/parser"
	"go/token"
	"os"
	"path/filepath"
	"testing"
)

// TestVerifBoundedStale executes the real Processor on a handful of small packages and checks the C11 clause "runs in
// a directory that already contains a previous, stale, or truncated output file all produce byte-identical output":
// for every package the output of a run in a clean directory is compared with the output of runs that find
//   - the previous output of the same declaration (rerun),
//   - the previous output cut in half (truncated),
//   - the (longer) output of an earlier version of the declaration (stale),
//   - an output file that is not Go at all (garbage).
//
// The packages live in a scratch copy of the repository (KVC_SCRATCH=1; nothing is written into /repo): the loader
// needs them inside the module. Labelled bounded; never counted as proof.
func TestVerifBoundedStale(t *testing.T) {
	res := &kvcResult{Evidence: map[string]any{}}
	defer res.emit()
	if os.Getenv("KVC_SCRATCH") != "1" {
		res.Failures = append(res.Failures, kvcFailure{Name: "not_in_scratch", Detail: "refusing to write test packages outside a scratch copy"})
		return
	}
	const common = `package main

import "context"

type Config struct{ N int }
type DB struct{ c *Config }
type Cache struct{ c *Config }
type App struct {
	db    *DB
	cache *Cache
}
type Svc struct{ a *App }

func NewConfig() *Config                                     { return &Config{} }
func NewDB(c *Config) (*DB, error)                           { return &DB{c}, nil }
func NewCache(ctx context.Context, c *Config) *Cache         { return &Cache{c} }
func NewApp(db *DB, cache *Cache) *App                       { return &App{db, cache} }
func NewSvc(a *App) *Svc                                     { return &Svc{a} }
func NewPlainApp(c *Config) *App                             { return &App{} }
func main()                                                  {}
`
	hdr := "package main\n\nimport \"github.com/mazrean/kessoku\"\n\n"
	cases := []struct {
		name  string
		decl  string // the declaration whose output is examined
		older string // an earlier version of the same file (its output is the stale file); "" = none
	}{
		{"exported_name", hdr + "var _ = kessoku.Inject[*App](\"InitializeApp\", kessoku.Provide(NewConfig), kessoku.Provide(NewPlainApp))\n", ""},
		{"injector_named_like_a_value", hdr + "var _ = kessoku.Inject[*App](\"app\", kessoku.Provide(NewConfig), kessoku.Provide(NewPlainApp))\n", ""},
		{"injector_named_like_an_input", hdr + "var _ = kessoku.Inject[*App](\"config\", kessoku.Provide(NewPlainApp))\n", ""},
		{"async_with_errors", hdr + "var _ = kessoku.Inject[*App](\"InitializeApp\", kessoku.Provide(NewConfig), kessoku.Async(kessoku.Provide(NewDB)), kessoku.Async(kessoku.Provide(NewCache)), kessoku.Provide(NewApp))\n",
			""},
		{"shrunk_declaration", hdr + "var _ = kessoku.Inject[*App](\"InitializeApp\", kessoku.Provide(NewConfig), kessoku.Provide(NewPlainApp))\n",
			hdr + "var _ = kessoku.Inject[*Svc](\"InitializeApp\", kessoku.Provide(NewConfig), kessoku.Async(kessoku.Provide(NewDB)), kessoku.Async(kessoku.Provide(NewCache)), kessoku.Provide(NewApp), kessoku.Provide(NewSvc))\n"},
		{"two_injectors", hdr + "var _ = kessoku.Inject[*App](\"InitializeApp\", kessoku.Provide(NewConfig), kessoku.Provide(NewPlainApp))\n\nvar _ = kessoku.Inject[*Config](\"InitializeConfig\", kessoku.Provide(NewConfig))\n",
			hdr + "var _ = kessoku.Inject[*App](\"InitializeApp\", kessoku.Provide(NewConfig), kessoku.Provide(NewPlainApp))\n"},
	}
	runs, evals := 0, 0
	var samples []any
	for _, c := range cases {
		dir, err := os.MkdirTemp(".", "zz_verif_stale_")
		if err != nil {
			res.Failures = append(res.Failures, kvcFailure{Name: "setup", Detail: err.Error()})
			return
		}
		func() {
			defer os.RemoveAll(dir)
			src := filepath.Join(dir, "kessoku.go")
			out := filepath.Join(dir, "kessoku_band.go")
			_ = os.WriteFile(filepath.Join(dir, "main.go"), []byte(common), 0o644)
			generate := func(decl string) ([]byte, error) {
				if err := os.WriteFile(src, []byte(decl), 0o644); err != nil {
					return nil, err
				}
				runs++
				if err := NewProcessor().ProcessFiles([]string{src}); err != nil {
					return nil, err
				}
				return os.ReadFile(out)
			}
			fail := func(kind, detail string, history []string) {
				res.Failures = append(res.Failures, kvcFailure{Name: kind + "[" + c.name + "]", Detail: detail,
					Input: map[string]any{"declaration": c.decl, "history": history}})
			}
			clean, err := generate(c.decl)
			if err != nil {
				fail("clean_run_refused", err.Error(), nil)
				return
			}
			if _, perr := parser.ParseFile(token.NewFileSet(), out, clean, 0); perr != nil {
				fail("clean_output_does_not_parse", perr.Error(), nil)
				return
			}
			if len(samples) < 3 {
				samples = append(samples, map[string]any{"case": c.name, "bytes": len(clean)})
			}
			histories := []struct {
				kind  string
				prior func() ([]byte, error)
			}{
				{"rerun_differs", func() ([]byte, error) { return clean, nil }},
				{"truncated_previous_output_matters", func() ([]byte, error) { return clean[:len(clean)/2], nil }},
				{"garbage_previous_output_matters", func() ([]byte, error) { return []byte("this is not Go\n"), nil }},
			}
			if c.older != "" {
				histories = append(histories, struct {
					kind  string
					prior func() ([]byte, error)
				}{"stale_previous_output_matters", func() ([]byte, error) {
					_ = os.Remove(out)
					return generate(c.older)
				}})
			}
			for _, h := range histories {
				prior, err := h.prior()
				if err != nil {
					fail("setup_"+h.kind, err.Error(), nil)
					continue
				}
				if err := os.WriteFile(out, prior, 0o644); err != nil {
					fail("setup_"+h.kind, err.Error(), nil)
					continue
				}
				evals++
				got, err := generate(c.decl)
				if err != nil {
					fail(h.kind, "the run with this previous output fails: "+err.Error(), []string{string(prior)})
					continue
				}
				if !bytes.Equal(got, clean) {
					fail(h.kind, fmt.Sprintf("output differs from the clean-directory output (%d vs %d bytes): first difference at byte %d", len(got), len(clean), firstDiff(got, clean)),
						[]string{string(prior)})
				}
			}
		}()
	}
	res.Evidence["generator_runs"] = runs
	res.Evidence["evaluations"] = evals
	res.Evidence["bound"] = fmt.Sprintf("%d hand-written packages x {rerun, truncated, garbage, stale} previous output files", len(cases))
	res.Evidence["samples"] = samples
}

func firstDiff(a, b []byte) int {
	n := len(a)
	if len(b) < n {
		n = len(b)
	}
	for i := 0; i < n; i++ {
		if a[i] != b[i] {
			return i
		}
	}
	return n
}

//go:build verif

package kessoku

import (
	"bytes"
	"fmt"
	"go/ast"
	"go/printer"
	"go/token"
	"go/types"
	"sort"
	"testing"
)

// TestVerifBoundedTypeExpr executes the real createASTTypeExpr on every type of a bounded family and checks the
// C04 clause "the spelling of a type in the generated file denotes that type": the returned expression is printed,
// type-checked again in a scope that holds the package's own named types and the imports createASTTypeExpr
// recorded (under the names it chose), and the result must be identical (types.Identical) to the type that went in.
// A mismatch is reported under the name of the outermost constructor that introduces it, so that the recorded
// known findings (constructors kessoku does not spell faithfully) do not hide a new one.
// Labelled bounded; never counted as proof.
func TestVerifBoundedTypeExpr(t *testing.T) {
	res := &kvcResult{Evidence: map[string]any{}}
	cur := types.NewPackage("example.com/cur", "cur")
	other := types.NewPackage("example.com/x/other", "other")
	other2 := types.NewPackage("example.com/y/other", "other") // same package name, another path
	mkNamed := func(p *types.Package, name string, under types.Type) *types.Named {
		tn := types.NewTypeName(token.NoPos, p, name, nil)
		n := types.NewNamed(tn, under, nil)
		p.Scope().Insert(tn)
		return n
	}
	bar := mkNamed(cur, "Bar", types.NewStruct(nil, nil))
	foo := mkNamed(other, "Foo", types.NewStruct(nil, nil))
	foo2 := mkNamed(other2, "Foo", types.Typ[types.Int])
	// generic type other.Gen[T any] struct{}
	tp := types.NewTypeParam(types.NewTypeName(token.NoPos, other, "T", nil), types.NewInterfaceType(nil, nil))
	genTN := types.NewTypeName(token.NoPos, other, "Gen", nil)
	gen := types.NewNamed(genTN, types.NewStruct(nil, nil), nil)
	gen.SetTypeParams([]*types.TypeParam{tp})
	other.Scope().Insert(genTN)
	genInt, _ := types.Instantiate(nil, gen, []types.Type{types.Typ[types.Int]}, false)
	// generic type cur.Box[T any] struct{} of the package itself, instantiated with an imported type
	tpOwn := types.NewTypeParam(types.NewTypeName(token.NoPos, cur, "T", nil), types.NewInterfaceType(nil, nil))
	boxTN := types.NewTypeName(token.NoPos, cur, "Box", nil)
	box := types.NewNamed(boxTN, types.NewStruct(nil, nil), nil)
	box.SetTypeParams([]*types.TypeParam{tpOwn})
	cur.Scope().Insert(boxTN)
	boxFoo, _ := types.Instantiate(nil, box, []types.Type{foo}, false)
	aliasTN := types.NewTypeName(token.NoPos, other, "Alias", nil)
	alias := types.NewAlias(aliasTN, types.NewSlice(types.Typ[types.String]))
	other.Scope().Insert(aliasTN)
	errT := types.Universe.Lookup("error").Type()
	anyT := types.Universe.Lookup("any").Type()

	type sample struct {
		name string // constructor class: the part of the name before ':' identifies the clause
		t    types.Type
	}
	leaves := []sample{
		{"basic:int", types.Typ[types.Int]}, {"basic:string", types.Typ[types.String]}, {"basic:float64", types.Typ[types.Float64]},
		{"basic:unsafe.Pointer", types.Typ[types.UnsafePointer]},
		{"named:own", bar}, {"named:imported", foo}, {"named:imported_same_package_name", foo2}, {"named:universe_error", errT},
		{"named:type_arguments", genInt}, {"named:own_generic_imported_argument", boxFoo}, {"alias:imported", alias}, {"alias:any", anyT},
	}
	v := func(name string, t types.Type) *types.Var { return types.NewVar(token.NoPos, nil, name, t) }
	fld := func(name string, t types.Type, emb bool) *types.Var {
		return types.NewField(token.NoPos, cur, name, t, emb)
	}
	compose := func(in []sample) []sample {
		var out []sample
		for _, s := range in {
			out = append(out,
				sample{"pointer:" + s.name, types.NewPointer(s.t)},
				sample{"slice:" + s.name, types.NewSlice(s.t)},
				sample{"array:" + s.name, types.NewArray(s.t, 3)},
				sample{"map:value=" + s.name, types.NewMap(types.Typ[types.String], s.t)},
				sample{"chan:bidirectional " + s.name, types.NewChan(types.SendRecv, s.t)},
				sample{"chan:send-only " + s.name, types.NewChan(types.SendOnly, s.t)},
				sample{"chan:receive-only " + s.name, types.NewChan(types.RecvOnly, s.t)},
				sample{"signature:param+result " + s.name, types.NewSignatureType(nil, nil, nil, types.NewTuple(v("", s.t), v("", types.Typ[types.Int])), types.NewTuple(v("", s.t), v("", errT)), false)},
				sample{"signature_variadic:" + s.name, types.NewSignatureType(nil, nil, nil, types.NewTuple(v("", types.Typ[types.Int]), v("", types.NewSlice(s.t))), nil, true)},
				sample{"struct:fields " + s.name, types.NewStruct([]*types.Var{fld("A", s.t, false), fld("B", types.Typ[types.Int], false)}, nil)},
				sample{"struct_tag:" + s.name, types.NewStruct([]*types.Var{fld("A", s.t, false)}, []string{`json:"a"`})},
				sample{"interface:method " + s.name, types.NewInterfaceType([]*types.Func{types.NewFunc(token.NoPos, cur, "M", types.NewSignatureType(nil, nil, nil, types.NewTuple(v("", s.t)), types.NewTuple(v("", types.Typ[types.Bool])), false))}, nil).Complete()},
			)
			if n, ok := s.t.(*types.Named); ok && n.Obj().Pkg() != nil && n.TypeArgs().Len() == 0 {
				out = append(out, sample{"struct_embedded:" + s.name, types.NewStruct([]*types.Var{fld(n.Obj().Name(), s.t, true)}, nil)})
			}
			if types.Comparable(s.t) {
				out = append(out, sample{"map:key=" + s.name, types.NewMap(s.t, types.Typ[types.Bool])})
			}
		}
		return out
	}
	level1 := compose(leaves)
	all := append(append([]sample{}, leaves...), level1...)
	if kvcTier() == "thorough" {
		all = append(all, compose(level1)...)
	} else {
		// quick: second level only over a spread of the first
		var pick []sample
		for i, s := range level1 {
			if i%7 == int(kvcSeed()%7+7)%7 {
				pick = append(pick, s)
			}
		}
		all = append(all, compose(pick)...)
	}

	byClause := map[string]int{}
	evals, mismatches := 0, 0
	firstOf := map[string]string{}
	for _, s := range all {
		evals++
		imports := map[string]*Import{}
		pool := NewVarPool()
		expr, err := createASTTypeExpr(cur.Path(), s.t, pool, imports)
		detail := ""
		if err != nil {
			detail = "createASTTypeExpr refuses the type: " + err.Error()
		} else {
			detail = denotes(expr, s.t, cur, imports, []*types.Package{other, other2})
		}
		if detail == "" {
			// C04 "no undeclared import": every package the spelling mentions (the imports createASTTypeExpr recorded)
			// is also referenced by collectImportsFromType, which decides what the generated file imports
			ref := map[string]*Import{}
			collectImportsFromType(s.t, cur.Path(), map[string]*Import{}, ref, NewVarPool())
			for path := range imports {
				if ref[path] == nil {
					detail = "the spelling mentions package " + path + " but collectImportsFromType does not reference it (the generated file would not import it)"
				}
			}
			if detail != "" {
				mismatches++
				byClause["imports_of_spelling_referenced"]++
				if _, seen := firstOf["imports_of_spelling_referenced"]; !seen {
					firstOf["imports_of_spelling_referenced"] = s.name + ": " + detail
				}
			}
			continue
		}
		mismatches++
		clause := firstMismatchClause(s.name)
		byClause[clause]++
		if _, seen := firstOf[clause]; !seen {
			firstOf[clause] = s.name + ": " + detail
		}
	}
	var clauses []string
	for c := range byClause {
		clauses = append(clauses, c)
	}
	sort.Strings(clauses)
	for _, c := range clauses {
		res.Failures = append(res.Failures, kvcFailure{Name: "typeexpr." + c, Detail: fmt.Sprintf("%d of the sampled types; first: %s", byClause[c], firstOf[c]), Input: firstOf[c]})
	}
	res.Evidence["evaluations"] = evals
	res.Evidence["distinct_nontrivial"] = evals
	res.Evidence["mismatching_types"] = mismatches
	res.Evidence["rule"] = "types built from int/string/float64/unsafe.Pointer, an own named type, imported named types (two packages with one name), a generic instance, an own generic type instantiated with an imported type, an alias, error, any, closed under pointer/slice/array/map/chan(3 directions)/func(with and without variadic)/struct(plain, tagged, embedded)/interface, one level (all) and a second level (all in thorough, a seeded 1/7 spread in quick); oracle: printed expression type-checked again must be types.Identical to the input; and every package the spelling mentions is referenced by collectImportsFromType"
	res.emit()
}

// firstMismatchClause: the constructor classes of the known findings, recognised anywhere in the sample's name;
// otherwise the outermost constructor.
func firstMismatchClause(name string) string {
	for _, k := range []string{"unsafe.Pointer", "type_arguments", "struct_embedded", "struct_tag", "signature_variadic"} {
		if bytes.Contains([]byte(name), []byte(k)) {
			return k
		}
	}
	for i := 0; i < len(name); i++ {
		if name[i] == ':' {
			return name[:i]
		}
	}
	return name
}

// denotes type-checks the printed expression and compares; "" if it denotes want.
func denotes(expr ast.Expr, want types.Type, cur *types.Package, imports map[string]*Import, pkgs []*types.Package) string {
	fset := token.NewFileSet()
	var buf bytes.Buffer
	if err := printer.Fprint(&buf, fset, expr); err != nil {
		return "cannot print: " + err.Error()
	}
	// a scope with the package's own declarations and one package name per recorded import
	scope := types.NewPackage(cur.Path(), cur.Name())
	for _, n := range cur.Scope().Names() {
		scope.Scope().Insert(cur.Scope().Lookup(n))
	}
	for path, imp := range imports {
		for _, p := range pkgs {
			if p.Path() == path {
				scope.Scope().Insert(types.NewPkgName(token.NoPos, scope, imp.Name, p))
			}
		}
	}
	tv, err := types.Eval(fset, scope, token.NoPos, buf.String())
	if err != nil {
		return fmt.Sprintf("`%s` does not type-check: %v", buf.String(), err)
	}
	if !types.Identical(tv.Type, want) {
		return fmt.Sprintf("`%s` denotes %s, wanted %s", buf.String(), tv.Type, want)
	}
	return ""
}

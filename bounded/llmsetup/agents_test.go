//go:build verif

package llmsetup

import (
	"fmt"
	"io/fs"
	"os"
	"path/filepath"
	"reflect"
	"regexp"
	"sort"
	"strings"
	"testing"
)

// TestVerifStaticAgents decides, by evaluation over the real package values, the
// declaration-level facts the contracts assume:
//   - the documented table in the contract file (docProject/docUser/documentedAgentNames) is what README.md says;
//   - the registry `agents` has no empty slot, names are unique and are exactly the documented set;
//   - the kong subcommands of LLMSetupCmd are in bijection with the registry (field tag name = Name() of its type argument);
//   - every file of the embedded tree has a clean relative name whose last element is a real file name not starting with ".tmp-".
func TestVerifStaticAgents(t *testing.T) {
	res := &kvcResult{}
	evals := 0
	fail := func(name, detail string) { res.Failures = append(res.Failures, kvcFailure{Name: name, Detail: detail}) }

	readme, err := os.ReadFile(filepath.Join("..", "..", "README.md"))
	if err != nil {
		fail("readme", "cannot read README.md: "+err.Error())
	}
	// "- **Amp:** `.agents/skills/` (project) or `~/.config/agents/skills/` (user)"
	rowRe := regexp.MustCompile("(?m)^- \\*\\*([^:*]+):\\*\\* `([^`]+)` \\(project\\) or `~/([^`]+)` \\(user\\)")
	// "Claude Code(`claude-code`)"
	nameRe := regexp.MustCompile("([A-Za-z ]+)\\(`([a-z-]+)`\\)")
	display := map[string]string{}
	if i := strings.Index(string(readme), "**Supported agents:**"); i >= 0 {
		line := string(readme)[i:]
		line = line[:strings.Index(line, "\n")]
		for _, m := range nameRe.FindAllStringSubmatch(line, -1) {
			display[strings.TrimSpace(strings.TrimPrefix(strings.TrimSpace(m[1]), ","))] = m[2]
		}
	}
	rows := rowRe.FindAllStringSubmatch(string(readme), -1)
	if len(rows) != len(documentedAgentNames) || len(display) != len(documentedAgentNames) {
		fail("readme_table", fmt.Sprintf("README lists %d path rows and %d agent names, the contract table has %d", len(rows), len(display), len(documentedAgentNames)))
	}
	for _, r := range rows {
		evals++
		name, ok := display[strings.TrimSpace(r[1])]
		if !ok {
			fail("readme_table", "README path row for unknown agent "+r[1])
			continue
		}
		if p := strings.TrimSuffix(r[2], "/"); docProject(name) != p {
			fail("readme_table", fmt.Sprintf("%s: README project path %q, contract table %q", name, p, docProject(name)))
		}
		if u := strings.TrimSuffix(r[3], "/"); docUser(name) != u {
			fail("readme_table", fmt.Sprintf("%s: README user path %q, contract table %q", name, u, docUser(name)))
		}
	}
	// registry
	seen := map[string]bool{}
	for i, a := range agents {
		evals++
		if a == nil {
			fail("registry_well_formed", fmt.Sprintf("agents[%d] is nil", i))
			continue
		}
		if seen[a.Name()] {
			fail("registry_unique", "duplicate agent name "+a.Name())
		}
		seen[a.Name()] = true
	}
	doc := map[string]bool{}
	for _, n := range documentedAgentNames {
		doc[n] = true
		if !seen[n] {
			fail("registry_complete", "documented agent "+n+" is not registered")
		}
	}
	for n := range seen {
		if !doc[n] {
			fail("registry_complete", "registered agent "+n+" is not documented")
		}
	}
	// kong subcommands <-> registry
	cmdT := reflect.TypeOf(LLMSetupCmd{})
	sub := map[string]bool{}
	for i := 0; i < cmdT.NumField(); i++ {
		f := cmdT.Field(i)
		tag := f.Tag.Get("kong")
		if strings.Contains(tag, "hidden") {
			continue
		}
		evals++
		m := regexp.MustCompile(`name='([^']+)'`).FindStringSubmatch(tag)
		if m == nil || !strings.Contains(tag, "cmd") {
			fail("subcommands", "field "+f.Name+" is not a named subcommand")
			continue
		}
		if sub[m[1]] {
			fail("subcommands", "duplicate subcommand "+m[1])
		}
		sub[m[1]] = true
		// the field type is AgentCmd[T]: Run() must install the agent whose Name() equals the subcommand name
		run, ok := reflect.PointerTo(f.Type).MethodByName("Run")
		if !ok {
			fail("subcommands", "subcommand "+m[1]+" has no Run method")
			continue
		}
		_ = run
		// zero value of the type argument, via the generic command's own declaration
		if an := agentNameOfCmd(reflect.New(f.Type).Interface()); an != m[1] {
			fail("subcommands", fmt.Sprintf("subcommand %q installs agent %q", m[1], an))
		}
	}
	for n := range seen {
		if !sub[n] {
			fail("subcommands", "registered agent "+n+" has no subcommand")
		}
	}
	for n := range sub {
		if !seen[n] {
			fail("subcommands", "subcommand "+n+" has no registered agent")
		}
	}
	// embedded tree names
	files := 0
	for _, a := range agents {
		if a == nil {
			continue
		}
		_ = fs.WalkDir(a.SkillsFS(), a.SkillsSrcDir(), func(p string, d fs.DirEntry, err error) error {
			if err != nil || d.IsDir() {
				return err
			}
			files++
			evals++
			rel, rerr := filepath.Rel(a.SkillsSrcDir(), p)
			base := filepath.Base(rel)
			if rerr != nil || !filepath.IsLocal(rel) || base == "." || base == ".." || strings.HasPrefix(base, ".tmp-") {
				fail("embedded_names", fmt.Sprintf("%s: embedded file %q has an unusable relative name %q", a.Name(), p, rel))
			}
			return nil
		})
	}
	if files == 0 {
		fail("embedded_names", "the embedded skill tree is empty")
	}
	var names []string
	for n := range seen {
		names = append(names, n)
	}
	sort.Strings(names)
	if len(res.Failures) > 4 {
		res.Failures = res.Failures[:4]
	}
	res.Evidence = map[string]any{"labelled": "static evaluation over the real package values (complete for these finite facts)", "evaluations": evals,
		"distinct_nontrivial": evals, "exhaustive": true, "samples": []any{names},
		"rule": "README rows, registry slots, LLMSetupCmd fields and embedded files, each checked once"}
	res.emit()
}

// agentNameOfCmd returns Name() of the agent a *AgentCmd[T] installs.
func agentNameOfCmd(cmd any) string {
	switch cmd.(type) {
	case *ClaudeCodeCmd:
		var a *ClaudeCodeAgent
		return a.Name()
	case *CursorCmd:
		var a *CursorAgent
		return a.Name()
	case *CopilotCmd:
		var a *CopilotAgent
		return a.Name()
	case *AmpCmd:
		var a *AmpAgent
		return a.Name()
	case *CodexCmd:
		var a *CodexAgent
		return a.Name()
	case *FactoryCmd:
		var a *FactoryAgent
		return a.Name()
	case *GeminiCLICmd:
		var a *GeminiCLIAgent
		return a.Name()
	case *GooseCmd:
		var a *GooseAgent
		return a.Name()
	case *OpenCodeCmd:
		var a *OpenCodeAgent
		return a.Name()
	}
	return "?"
}

// TestVerifInstallMatrix runs the real Install for every agent x flag combination x prior state and
// compares the destination with the embedded tree (bounded stand-in for "the complete tree is installed":
// the proof covers containment, the result path and per-file atomic installation, but that fs.WalkDir
// visits every file is a trusted library fact).
func TestVerifInstallMatrix(t *testing.T) {
	res := &kvcResult{}
	evals, nontrivial := 0, 0
	var samples []any
	fail := func(name, detail string, in any) {
		if len(res.Failures) < 4 {
			res.Failures = append(res.Failures, kvcFailure{Name: name, Detail: detail, Input: in})
		}
	}
	for _, a := range agents {
		if a == nil {
			continue
		}
		for _, flag := range []string{"default", "user", "path-abs", "path-rel", "path+user"} {
			for _, prior := range []string{"absent", "older-install", "current-install-wrong-mode", "unrelated-files", "base-is-file",
				"interrupted-after-1", "interrupted-after-2", "interrupted-after-3"} {
				home, cwd, custom := t.TempDir(), t.TempDir(), t.TempDir()
				t.Setenv("HOME", home)
				old, _ := os.Getwd()
				_ = os.Chdir(cwd)
				var customPath string
				user := false
				var base string
				switch flag {
				case "default":
					base = filepath.Join(cwd, docProject(a.Name()))
				case "user":
					user = true
					base = filepath.Join(home, docUser(a.Name()))
				case "path-abs":
					customPath = filepath.Join(custom, "x")
					base = customPath
				case "path-rel":
					customPath = filepath.Join("rel", "dir")
					base = filepath.Join(cwd, "rel", "dir")
				case "path+user":
					customPath, user = filepath.Join(custom, "y"), true
					base = customPath
				}
				dest := filepath.Join(base, "kessoku-di")
				sentinel := filepath.Join(filepath.Dir(base), "sentinel.txt")
				switch prior {
				case "older-install":
					_ = os.MkdirAll(dest, 0o755)
					_ = os.WriteFile(filepath.Join(dest, "SKILL.md"), []byte("stale"), 0o600)
				case "current-install-wrong-mode":
					// the current content is already there, but with other permissions
					_ = fs.WalkDir(a.SkillsFS(), a.SkillsSrcDir(), func(p string, d fs.DirEntry, werr error) error {
						if werr != nil || d.IsDir() {
							return werr
						}
						rel, _ := filepath.Rel(a.SkillsSrcDir(), p)
						b, _ := fs.ReadFile(a.SkillsFS(), p)
						_ = os.MkdirAll(filepath.Dir(filepath.Join(dest, rel)), 0o755)
						return os.WriteFile(filepath.Join(dest, rel), b, 0o600)
					})
				case "interrupted-after-1", "interrupted-after-2", "interrupted-after-3":
					// an earlier run died between two files: the first k files of the walk order are installed, the rest is missing
					k := int(prior[len(prior)-1] - '0')
					_ = fs.WalkDir(a.SkillsFS(), a.SkillsSrcDir(), func(p string, d fs.DirEntry, werr error) error {
						if werr != nil || d.IsDir() {
							return werr
						}
						if k == 0 {
							return nil
						}
						k--
						rel, _ := filepath.Rel(a.SkillsSrcDir(), p)
						b, _ := fs.ReadFile(a.SkillsFS(), p)
						_ = os.MkdirAll(filepath.Dir(filepath.Join(dest, rel)), 0o755)
						return os.WriteFile(filepath.Join(dest, rel), b, 0o644)
					})
				case "unrelated-files":
					_ = os.MkdirAll(base, 0o755)
					_ = os.WriteFile(filepath.Join(base, "other.txt"), []byte("keep"), 0o600)
				case "base-is-file":
					_ = os.MkdirAll(filepath.Dir(base), 0o755)
					_ = os.WriteFile(base, []byte("i am a file"), 0o644)
				}
				_ = os.MkdirAll(filepath.Dir(sentinel), 0o755)
				_ = os.WriteFile(sentinel, []byte("sentinel"), 0o600)
				before := snapshotTree(home, cwd, custom)
				got, err := Install(a, customPath, user)
				_ = os.Chdir(old)
				evals++
				sc := map[string]string{"agent": a.Name(), "flag": flag, "prior": prior}
				if prior != "absent" || flag != "default" {
					nontrivial++
				}
				if len(samples) < 3 {
					samples = append(samples, sc)
				}
				after := snapshotTree(home, cwd, custom)
				if prior == "base-is-file" {
					if err == nil {
						fail("base_is_a_file_refused", fmt.Sprintf("%v: Install succeeded although the base path is a file", sc), sc)
					}
					if d := diffTrees(before, after, ""); d != "" {
						fail("base_is_a_file_refused", fmt.Sprintf("%v: file system changed: %s", sc, d), sc)
					}
					continue
				}
				if err != nil {
					fail("install_succeeds", fmt.Sprintf("%v: %v", sc, err), sc)
					continue
				}
				if got != dest {
					fail("result_is_documented_location", fmt.Sprintf("%v: installed to %q, documented location is %q", sc, got, dest), sc)
				}
				// full tree, byte-identical, mode 0644
				_ = fs.WalkDir(a.SkillsFS(), a.SkillsSrcDir(), func(p string, d fs.DirEntry, werr error) error {
					if werr != nil || d.IsDir() {
						return werr
					}
					rel, _ := filepath.Rel(a.SkillsSrcDir(), p)
					want, _ := fs.ReadFile(a.SkillsFS(), p)
					gotb, rerr := os.ReadFile(filepath.Join(dest, rel))
					st, _ := os.Stat(filepath.Join(dest, rel))
					if rerr != nil || string(gotb) != string(want) {
						fail("full_tree", fmt.Sprintf("%v: %s missing or different", sc, rel), sc)
					} else if st.Mode().Perm() != 0o644 {
						fail("full_tree", fmt.Sprintf("%v: %s has mode %o", sc, rel, st.Mode().Perm()), sc)
					}
					return nil
				})
				// containment: nothing outside dest changed, apart from created parent directories
				if d := diffTrees(before, after, dest); d != "" {
					fail("outside_untouched", fmt.Sprintf("%v: %s", sc, d), sc)
				}
			}
		}
	}
	res.Evidence = map[string]any{"labelled": "bounded (exhaustive over agents x flags x 8 prior states) - executed, not counted as proof",
		"evaluations": evals, "distinct_nontrivial": nontrivial, "exhaustive": true, "samples": samples,
		"rule": "9 agents x {default, --user, --path absolute, --path relative, --path with --user} x {absent, older install, current content with mode 0600, unrelated files, base is a file, interrupted after 1 / 2 / 3 files}"}
	res.emit()
}

type treeEntry struct {
	dir     bool
	mode    fs.FileMode
	content string
}

func snapshotTree(roots ...string) map[string]treeEntry {
	out := map[string]treeEntry{}
	for _, r := range roots {
		_ = filepath.WalkDir(r, func(p string, d fs.DirEntry, err error) error {
			if err != nil {
				return nil
			}
			st, _ := d.Info()
			e := treeEntry{dir: d.IsDir(), mode: st.Mode().Perm()}
			if !d.IsDir() {
				b, _ := os.ReadFile(p)
				e.content = string(b)
			}
			out[p] = e
			return nil
		})
	}
	return out
}

// diffTrees reports a change outside `except` other than newly created directories that are ancestors of `except`.
func diffTrees(before, after map[string]treeEntry, except string) string {
	under := func(p string) bool {
		return except != "" && (p == except || strings.HasPrefix(p, except+string(filepath.Separator)))
	}
	for p, b := range before {
		if under(p) {
			continue
		}
		a, ok := after[p]
		if !ok {
			return "removed " + p
		}
		if a != b {
			return "modified " + p
		}
	}
	for p, a := range after {
		if under(p) {
			continue
		}
		if _, ok := before[p]; ok {
			continue
		}
		if a.dir && except != "" && strings.HasPrefix(except, p+string(filepath.Separator)) {
			continue // a created parent directory
		}
		return "created " + p
	}
	return ""
}

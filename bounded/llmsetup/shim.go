//go:build verif

package llmsetup

import (
	"errors"
	"os"
)

// verifOS stands in for the os package inside the mechanically rewritten copy
// of install.go (os.<effect> -> verifOS.<effect>): each step performs the real
// operation, but one chosen step can be made to fail, or the process can be
// stopped (os.Exit, so deferred code does not run) right after it.
type shimOS struct{}

var verifOS shimOS

var shimPlan struct {
	step string // MkdirAll | CreateTemp | Write | Sync | Close | Chmod | Rename | Remove
	mode string // "" | fail | partial | crash | crash-partial
	hits map[string]int
}

var errInjected = errors.New("injected fault")

func shimFail(step string) bool {
	if shimPlan.hits == nil {
		shimPlan.hits = map[string]int{}
	}
	shimPlan.hits[step]++
	return shimPlan.step == step && shimPlan.mode == "fail"
}

func shimCrash(step string) {
	if shimPlan.step == step && shimPlan.mode == "crash" {
		os.Exit(77)
	}
}

func (shimOS) MkdirAll(path string, perm os.FileMode) error {
	if shimFail("MkdirAll") {
		return errInjected
	}
	err := os.MkdirAll(path, perm)
	shimCrash("MkdirAll")
	return err
}

type shimFile struct{ f *os.File }

func (shimOS) CreateTemp(dir, pattern string) (*shimFile, error) {
	if shimFail("CreateTemp") {
		return nil, errInjected
	}
	f, err := os.CreateTemp(dir, pattern)
	if err != nil {
		return nil, err
	}
	shimCrash("CreateTemp")
	return &shimFile{f}, nil
}

func (s *shimFile) Name() string { return s.f.Name() }

func (s *shimFile) Write(b []byte) (int, error) {
	if shimFail("Write") {
		return 0, errInjected
	}
	if shimPlan.step == "Write" && (shimPlan.mode == "partial" || shimPlan.mode == "crash-partial") {
		n, _ := s.f.Write(b[:len(b)/2])
		if shimPlan.mode == "crash-partial" {
			os.Exit(77)
		}
		return n, errInjected
	}
	n, err := s.f.Write(b)
	shimCrash("Write")
	return n, err
}

func (s *shimFile) Sync() error {
	if shimFail("Sync") {
		return errInjected
	}
	err := s.f.Sync()
	shimCrash("Sync")
	return err
}

func (s *shimFile) Close() error {
	if shimFail("Close") {
		_ = s.f.Close()
		return errInjected
	}
	err := s.f.Close()
	shimCrash("Close")
	return err
}

func (shimOS) Chmod(name string, mode os.FileMode) error {
	if shimFail("Chmod") {
		return errInjected
	}
	err := os.Chmod(name, mode)
	shimCrash("Chmod")
	return err
}

func (shimOS) Rename(oldpath, newpath string) error {
	if shimFail("Rename") {
		return errInjected
	}
	err := os.Rename(oldpath, newpath)
	shimCrash("Rename")
	return err
}

func (shimOS) Remove(name string) error {
	if shimFail("Remove") {
		return errInjected
	}
	err := os.Remove(name)
	shimCrash("Remove")
	return err
}

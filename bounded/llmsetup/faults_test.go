//go:build verif

package llmsetup

import (
	"fmt"
	"os"
	"os/exec"
	"path/filepath"
	"strings"
	"testing"
)

// TestVerifInstallFaults runs the real InstallFile (install.go with os.<effect>
// mechanically redirected to verifOS) under every single injected step failure
// and with the process stopped after every file-system step, over a fresh and a
// previously installed destination, and checks the statement of C15 directly.
// It is the replay for failed InstallFile obligations and a cross-check of the
// trusted file-system model; exhaustive over (step x fault kind x prior state).
func TestVerifInstallFaults(t *testing.T) {
	if plan := os.Getenv("KVC_CRASH_CHILD"); plan != "" {
		p := strings.SplitN(plan, "|", 4)
		shimPlan.step, shimPlan.mode = p[0], p[1]
		_ = InstallFile(p[2], p[3], []byte(newContent))
		os.Exit(0)
	}
	res := &kvcResult{}
	evals, nontrivial := 0, 0
	var samples []any
	fail := func(name, detail string, in any) {
		res.Failures = append(res.Failures, kvcFailure{Name: name, Detail: detail, Input: in})
	}
	steps := []string{"MkdirAll", "CreateTemp", "Write", "Sync", "Close", "Chmod", "Rename"}
	for _, prior := range []string{"absent", "older-install", "older-install-readonly"} {
		// ---- no fault
		{
			dir, name := setupPrior(t, prior)
			shimPlan.step, shimPlan.mode, shimPlan.hits = "", "", nil
			err := InstallFile(dir, name, []byte(newContent))
			evals++
			sc := map[string]string{"prior": prior, "step": "-", "mode": "none"}
			if err != nil {
				fail("success_installs", fmt.Sprintf("%v: fault-free install failed: %v", sc, err), sc)
			} else if d := describe(dir, name); d != "new" {
				fail("success_installs", fmt.Sprintf("%v: destination is %s after a successful install", sc, d), sc)
			} else if l := leftovers(dir); len(l) > 0 {
				fail("success_leaves_no_temp", fmt.Sprintf("%v: leftover %v", sc, l), sc)
			}
		}
		// ---- one step fails
		for _, step := range steps {
			for _, mode := range []string{"fail", "partial"} {
				if mode == "partial" && step != "Write" {
					continue
				}
				dir, name := setupPrior(t, prior)
				want := describe(dir, name)
				shimPlan.step, shimPlan.mode, shimPlan.hits = step, mode, nil
				err := InstallFile(dir, name, []byte(newContent))
				evals++
				nontrivial++
				sc := map[string]string{"prior": prior, "step": step, "mode": mode}
				if len(samples) < 3 {
					samples = append(samples, sc)
				}
				if err == nil {
					fail("every_failure_reported", fmt.Sprintf("%v: step failed but InstallFile returned nil", sc), sc)
				}
				if got := describe(dir, name); got != want {
					fail("error_keeps_previous_destination", fmt.Sprintf("%v: destination was %s, is %s after the failed install", sc, want, got), sc)
				}
				if l := leftovers(dir); len(l) > 0 {
					fail("error_leaves_no_temp", fmt.Sprintf("%v: temporary file left behind: %v", sc, l), sc)
				}
			}
		}
		// ---- the process dies right after a step (deferred code does not run)
		for _, step := range append(append([]string{}, steps...), "Remove") {
			for _, mode := range []string{"crash", "crash-partial"} {
				if mode == "crash-partial" && step != "Write" {
					continue
				}
				dir, name := setupPrior(t, prior)
				want := describe(dir, name)
				cmd := exec.Command(os.Args[0], "-test.run=^TestVerifInstallFaults$")
				cmd.Env = append(os.Environ(), "KVC_CRASH_CHILD="+step+"|"+mode+"|"+dir+"|"+name)
				_ = cmd.Run()
				evals++
				nontrivial++
				sc := map[string]string{"prior": prior, "step": step, "mode": mode}
				got := describe(dir, name)
				if got != want && got != "new" {
					fail("destination_old_or_new", fmt.Sprintf("%v: after the crash the destination is %s (was %s)", sc, got, want), sc)
				}
				// a later successful run completes the installation
				shimPlan.step, shimPlan.mode, shimPlan.hits = "", "", nil
				if err := InstallFile(dir, name, []byte(newContent)); err != nil {
					fail("rerun_completes", fmt.Sprintf("%v: re-run after the crash failed: %v", sc, err), sc)
				} else if d := describe(dir, name); d != "new" {
					fail("rerun_completes", fmt.Sprintf("%v: destination is %s after the re-run", sc, d), sc)
				}
			}
		}
	}
	if len(res.Failures) > 3 {
		res.Failures = res.Failures[:3]
	}
	res.Evidence = map[string]any{
		"labelled": "bounded (exhaustive over the listed finite space) - executed on the real code, not counted as proof",
		"evaluations": evals, "distinct_nontrivial": nontrivial, "exhaustive": true, "samples": samples,
		"rule": "prior state in {absent, older install 0644, older install 0400} x {no fault, each of 7 steps failing, partial write, process exit after each of 8 steps, exit after a partial write}; non-trivial = a fault or crash is injected",
	}
	res.emit()
}

const (
	newContent = "NEW-CONTENT-0123456789-NEW-CONTENT"
	oldContent = "old"
)

func setupPrior(t *testing.T, prior string) (string, string) {
	base := t.TempDir()
	dir := filepath.Join(base, "skills", "sub")
	name := "SKILL.md"
	switch prior {
	case "older-install":
		_ = os.MkdirAll(dir, 0o755)
		_ = os.WriteFile(filepath.Join(dir, name), []byte(oldContent), 0o644)
	case "older-install-readonly":
		_ = os.MkdirAll(dir, 0o755)
		_ = os.WriteFile(filepath.Join(dir, name), []byte(oldContent), 0o400)
	}
	return dir, name
}

// describe classifies the destination: absent | old | new | other(...)
func describe(dir, name string) string {
	p := filepath.Join(dir, name)
	st, err := os.Lstat(p)
	if err != nil {
		return "absent"
	}
	b, _ := os.ReadFile(p)
	switch {
	case string(b) == newContent && st.Mode().Perm() == 0o644:
		return "new"
	case string(b) == oldContent:
		return fmt.Sprintf("old(%o)", st.Mode().Perm())
	}
	return fmt.Sprintf("other(len=%d,mode=%o)", len(b), st.Mode().Perm())
}

func leftovers(dir string) []string {
	var out []string
	es, _ := os.ReadDir(dir)
	for _, e := range es {
		if strings.HasPrefix(e.Name(), ".tmp-") {
			out = append(out, e.Name())
		}
	}
	return out
}

//go:build verif

package migrate

import (
	"encoding/json"
	"fmt"
	"os"
	"strconv"
	"strings"
)

// kvcResult is what a side check reports to the kvc driver (one line on stdout).
type kvcFailure struct {
	Name   string `json:"name"`
	Detail string `json:"detail"`
	Input  any    `json:"input,omitempty"`
}

type kvcResult struct {
	Evidence map[string]any `json:"evidence"`
	Failures []kvcFailure   `json:"failures"`
	Known    []string       `json:"known"`
}

func (r *kvcResult) emit() {
	b, _ := json.Marshal(r)
	fmt.Println("KVC-RESULT " + string(b))
}

func kvcTier() string { return os.Getenv("VERIF_TIER") }
func kvcSeed() int64 {
	n, _ := strconv.ParseInt(os.Getenv("VERIF_SEED"), 10, 64)
	return n
}

// kvcModelStrings extracts the string literals of the solver model handed over in KVC_MODEL.
func kvcModelStrings() []string {
	var m struct {
		Model map[string]string `json:"model"`
	}
	_ = json.Unmarshal([]byte(os.Getenv("KVC_MODEL")), &m)
	var out []string
	for _, v := range m.Model {
		v = strings.TrimSpace(v)
		if len(v) >= 2 && v[0] == '"' && v[len(v)-1] == '"' {
			s := strings.ReplaceAll(v[1:len(v)-1], `""`, `"`)
			if !strings.Contains(s, `\u{`) && s != "" {
				out = append(out, s)
			}
		}
	}
	return out
}

//go:build verif

package migrate

import (
	"bytes"
	"encoding/json"
	"fmt"
	"go/ast"
	"go/format"
	"go/parser"
	"go/token"
	"os"
	"path/filepath"
	"sort"
	"strings"
	"testing"
)

// TestVerifBoundedMigrate is the executed companion of the C14 contracts (labelled bounded, never
// counted as proof):
//
//	(1) every AddImport history up to a bound over a small alphabet keeps imports/usedNames mutually
//	    inverse, never renames a path, and returns the recorded name - the property-level reading of
//	    "consistent aliases"; it is also the search for a concrete failing history when an AddImport
//	    obligation fails (seeded with the strings of the solver's model);
//	(2) the real MigrateFiles on every input directory of internal/migrate/testdata, three times each:
//	    byte-identical output, output parses and is gofmt-stable, every import declared once,
//	    each migrated set declared once, and no output file when migration reports an error.
func TestVerifBoundedMigrate(t *testing.T) {
	res := &kvcResult{Evidence: map[string]any{}}
	if in := os.Getenv("KVC_REPLAY_INPUT"); in != "" {
		var h []string
		_ = json.Unmarshal([]byte(in), &h)
		if d := runAddImportHistory(h); d != "" {
			res.Failures = append(res.Failures, kvcFailure{Name: "addimport_history", Detail: d, Input: h})
		}
		res.Evidence["evaluations"] = 1
		res.Evidence["distinct_nontrivial"] = 1
		res.emit()
		return
	}
	paths := []string{"x/a", "y/a", "z/a_1"}
	names := []string{"a", "a_1", "b"}
	for _, s := range kvcModelStrings() {
		if len(names) < 6 {
			names = append(names, s)
		}
		if len(paths) < 5 {
			paths = append(paths, s)
		}
	}
	var reqs []string
	for _, p := range paths {
		for _, n := range names {
			reqs = append(reqs, p+"="+n)
		}
	}
	maxLen := 4
	if kvcTier() == "thorough" {
		maxLen = 5
	}
	histories := 0
	var firstBad []string
	var rec func(h []string)
	rec = func(h []string) {
		if firstBad != nil {
			return
		}
		if len(h) > 0 {
			histories++
			if d := runAddImportHistory(h); d != "" {
				firstBad = append([]string{}, h...)
				res.Failures = append(res.Failures, kvcFailure{Name: "addimport_history", Detail: d, Input: firstBad})
				return
			}
		}
		if len(h) == maxLen {
			return
		}
		for _, r := range reqs {
			rec(append(h, r))
		}
	}
	rec(nil)

	// (2) the real migrator over the repository's input directories, plus planted invalid inputs
	// (only in the disposable scratch copy this check runs in - nothing is ever written into /repo)
	planted := plantInputs()
	dirs, _ := os.ReadDir("testdata")
	runs, failedRuns := 0, 0
	for _, d := range dirs {
		if !d.IsDir() {
			continue
		}
		dir := filepath.Join("testdata", d.Name())
		inputs, err := findInputFiles(dir)
		if err != nil || len(inputs) == 0 {
			continue
		}
		var first []byte
		firstSet := false
		for rep := 0; rep < 3; rep++ {
			out := filepath.Join(t.TempDir(), "out.go")
			err := NewMigrator().MigrateFiles(inputs, out)
			runs++
			data, rerr := os.ReadFile(out)
			if want, isPlanted := planted[d.Name()]; isPlanted && rep == 0 {
				switch {
				case want == "error" && err == nil:
					res.Failures = append(res.Failures, kvcFailure{Name: "invalid_input_is_refused", Detail: dir + ": migration of an invalid input succeeded", Input: dir})
				case want == "imports-v2" && (err != nil || rerr != nil || !bytes.Contains(data, []byte("lib \"github.com/mazrean/kessoku/internal/migrate/testdata/zz_verif_v2/lib/v2\""))):
					res.Failures = append(res.Failures, kvcFailure{Name: "used_package_is_imported", Detail: fmt.Sprintf("%s: wire.Build(lib.NewFoo, ...) with lib declared by .../lib/v2 must migrate to a file importing that path under the name lib (err=%v, output=%q)", dir, err, data), Input: dir})
				}
			}
			if err != nil {
				failedRuns++
				if rerr == nil {
					res.Failures = append(res.Failures, kvcFailure{Name: "failure_writes_no_file", Detail: fmt.Sprintf("%s: MigrateFiles returned %q but wrote %d bytes", dir, err, len(data)), Input: dir})
				}
				continue
			}
			if rerr != nil {
				continue // nothing to migrate, no output
			}
			if !firstSet {
				first, firstSet = data, true
				if d := checkOutput(data); d != "" {
					res.Failures = append(res.Failures, kvcFailure{Name: "output_well_formed", Detail: dir + ": " + d, Input: dir})
				}
			} else if !bytes.Equal(first, data) {
				res.Failures = append(res.Failures, kvcFailure{Name: "byte_identical_across_runs", Detail: dir + ": outputs of two runs differ", Input: dir})
			}
		}
	}
	res.Evidence["evaluations"] = histories + runs
	res.Evidence["distinct_nontrivial"] = histories
	res.Evidence["addimport_histories"] = histories
	res.Evidence["addimport_max_len"] = maxLen
	res.Evidence["migrate_runs"] = runs
	res.Evidence["migrate_runs_reporting_error"] = failedRuns
	res.Evidence["planted_invalid_inputs"] = len(planted)
	res.emit()
}

// runAddImportHistory replays "path=name" requests on a fresh converter and checks the invariant after each.
func runAddImportHistory(h []string) string {
	tc := NewTypeConverter(nil)
	for i, r := range h {
		k := strings.Index(r, "=")
		if k < 0 {
			continue
		}
		path, name := r[:k], r[k+1:]
		before := map[string]string{}
		for p, n := range tc.imports {
			before[p] = n
		}
		usedBefore := map[string]string{}
		for n, p := range tc.usedNames {
			usedBefore[n] = p
		}
		got := tc.AddImport(path, name)
		if tc.imports[path] != got {
			return fmt.Sprintf("step %d AddImport(%q,%q) returned %q but records %q", i, path, name, got, tc.imports[path])
		}
		for p, n := range before {
			if tc.imports[p] != n {
				return fmt.Sprintf("step %d AddImport(%q,%q) renamed %q from %q to %q", i, path, name, p, n, tc.imports[p])
			}
		}
		if _, had := before[path]; !had {
			if _, used := usedBefore[got]; used {
				return fmt.Sprintf("step %d AddImport(%q,%q) handed out %q which already names %q", i, path, name, got, usedBefore[got])
			}
		}
		for p, n := range tc.imports {
			if tc.usedNames[n] != p {
				return fmt.Sprintf("step %d: imports[%q]=%q but usedNames[%q]=%q", i, p, n, n, tc.usedNames[n])
			}
		}
		for n, p := range tc.usedNames {
			if tc.imports[p] != n {
				return fmt.Sprintf("step %d: usedNames[%q]=%q but imports[%q]=%q (two names for one package)", i, n, p, p, tc.imports[p])
			}
		}
	}
	return ""
}

// checkOutput: the written file parses, is gofmt-stable, declares each import path once and each
// top-level variable other than _ once.
func checkOutput(data []byte) string {
	fset := token.NewFileSet()
	f, err := parser.ParseFile(fset, "out.go", data, parser.ParseComments)
	if err != nil {
		return "does not parse: " + err.Error()
	}
	if fm, err := format.Source(data); err != nil || !bytes.Equal(fm, data) {
		return "not gofmt-stable"
	}
	seen := map[string]bool{}
	var paths []string
	for _, im := range f.Imports {
		if seen[im.Path.Value] {
			return "import " + im.Path.Value + " declared twice"
		}
		seen[im.Path.Value] = true
		paths = append(paths, im.Path.Value)
	}
	if !sort.StringsAreSorted(paths) {
		return "imports not sorted"
	}
	vars := map[string]bool{}
	for _, d := range f.Decls {
		gd, ok := d.(*ast.GenDecl)
		if !ok || gd.Tok != token.VAR {
			continue
		}
		for _, sp := range gd.Specs {
			for _, n := range sp.(*ast.ValueSpec).Names {
				if n.Name == "_" {
					continue
				}
				if vars[n.Name] {
					return "variable " + n.Name + " declared twice"
				}
				vars[n.Name] = true
			}
		}
	}
	return ""
}

// plantInputs writes invalid wire inputs (and the scenario of the repaired defect KF-C14-1) into testdata of the scratch copy.
// Returns directory name -> expectation ("error" | "imports-v2": the scenario of the repaired defect KF-C14-1).
func plantInputs() map[string]string {
	if os.Getenv("KVC_SCRATCH") != "1" {
		return nil
	}
	const base = "github.com/mazrean/kessoku/internal/migrate/testdata/"
	files := map[string]string{
		"zz_verif_syntax/input.go": "package p\n\nimport \"github.com/google/wire\"\n\nvar S = wire.NewSet(NewFoo\n\ntype Foo struct{}\n\nfunc NewFoo() *Foo { return &Foo{} }\n",
		"zz_verif_type/input.go":   "package p\n\nimport \"github.com/google/wire\"\n\nvar S = wire.NewSet(NewMissing)\n\ntype Foo struct{}\n\nfunc NewFoo() *Foo { return &Foo{} }\n",
		"zz_verif_dupset/a.go":     "package p\n\nimport \"github.com/google/wire\"\n\nvar S = wire.NewSet(NewFoo)\n\ntype Foo struct{}\n\nfunc NewFoo() *Foo { return &Foo{} }\n",
		"zz_verif_dupset/b.go":     "//go:build other\n\npackage p\n\nimport \"github.com/google/wire\"\n\nvar S = wire.NewSet(NewBar)\n\ntype Bar struct{}\n\nfunc NewBar() *Bar { return &Bar{} }\n",
		"zz_verif_v2/lib/v2/lib.go": "package lib\n\ntype Foo struct{}\n\nfunc NewFoo() *Foo { return &Foo{} }\n",
		"zz_verif_v2/input.go":      "//go:build wireinject\n\npackage main\n\nimport (\n\t\"github.com/google/wire\"\n\t\"" + base + "zz_verif_v2/lib/v2\"\n)\n\ntype App struct{}\n\nfunc NewApp(f *lib.Foo) *App { return &App{} }\n\nfunc InitializeApp() *App {\n\twire.Build(lib.NewFoo, NewApp)\n\treturn nil\n}\n",
	}
	for name, content := range files {
		p := filepath.Join("testdata", name)
		_ = os.MkdirAll(filepath.Dir(p), 0o755)
		_ = os.WriteFile(p, []byte(content), 0o644)
	}
	return map[string]string{"zz_verif_syntax": "error", "zz_verif_type": "error", "zz_verif_v2": "imports-v2"}
}

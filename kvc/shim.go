package main

import (
	"bytes"
	"go/ast"
	"go/format"
	"go/parser"
	"go/token"
	"os"
)

// osEffects are the os functions whose calls are redirected to the in-package
// shim object `verifOS` (defined by the side check) so that a replay can make a
// chosen file-system step fail or stop the process right after it. The rewrite
// is purely mechanical: every selector `os.<F>` with F in this set becomes
// `verifOS.<F>`; nothing else in the file changes.
var osEffects = map[string]bool{"MkdirAll": true, "CreateTemp": true, "Chmod": true, "Rename": true, "Remove": true}

func shimRewrite(src, dst string) (int, error) {
	fset := token.NewFileSet()
	f, err := parser.ParseFile(fset, src, nil, parser.ParseComments)
	if err != nil {
		return 0, err
	}
	n := 0
	ast.Inspect(f, func(nd ast.Node) bool {
		sel, ok := nd.(*ast.SelectorExpr)
		if !ok {
			return true
		}
		id, ok := sel.X.(*ast.Ident)
		if ok && id.Name == "os" && osEffects[sel.Sel.Name] {
			id.Name = "verifOS"
			n++
		}
		return true
	})
	var buf bytes.Buffer
	if err := format.Node(&buf, fset, f); err != nil {
		return 0, err
	}
	return n, os.WriteFile(dst, buf.Bytes(), 0o644)
}

package main

import (
	"crypto/sha256"
	"encoding/hex"
	"encoding/json"
	"fmt"
	"go/ast"
	"go/types"
	"os"
	"path/filepath"
	"runtime"
	"runtime/debug"
	"sort"
	"strings"
	"sync"
	"sync/atomic"
)

type OblResult struct {
	Name    string            `json:"obligation"`
	Kind    string            `json:"kind"`
	Func    string            `json:"function"`
	Pos     string            `json:"pos,omitempty"`
	Text    string            `json:"clause,omitempty"`
	Status  string            `json:"status"` // discharged | failed | undecided | cover-ok | vacuous
	Result  string            `json:"result"`
	Backend string            `json:"backend"`
	TimeS   float64           `json:"time_s"`
	SMT2    string            `json:"smt2"`
	Model   map[string]string `json:"model,omitempty"`
	Output  string            `json:"solver_output,omitempty"`
}

type FuncResult struct {
	Key     string
	Err     string
	Obls    []*OblResult
	Dropped map[string]int
	vc      *VC
}

// buildVC generates the obligations of one function under contract.
func buildVC(prog *Program, fi *FuncInfo) (vc *VC, err error) {
	vc = newVC(prog, fi)
	patternHook = vc.patternOK
	defer func() {
		if r := recover(); r != nil {
			if ve, ok := r.(vcError); ok {
				err = fmt.Errorf("%s", ve.msg)
				return
			}
			err = fmt.Errorf("internal error: %v\n%s", r, debug.Stack())
		}
	}()
	if fi.Decl == nil || fi.Decl.Body == nil {
		return vc, fmt.Errorf("%s has no body in the repository", fi.Key)
	}
	sp := fi.Spec
	f := &Frame{vc: vc, pk: fi.Pkg, fi: fi, top: true, spc: sp, split: fi.Split, bound: map[types.Object]Term{}, closures: map[types.Object]*ast.FuncLit{}}
	st := &State{env: map[envKey]Term{}, heap: map[string]Term{}, base: &lazyBase{epoch: 0}, pc: True}
	params := funcParams(fi.Pkg, fi.Decl)
	f.results = funcResults(fi.Pkg, fi.Decl)
	f.specEnv = map[envKey]Term{}
	// generic functions are verified with their type parameters as opaque reference types
	sig := fi.Obj.Type().(*types.Signature)
	f.tsub = map[*types.TypeParam]types.Type{}
	opaque := types.NewPointer(types.NewNamed(types.NewTypeName(0, nil, "T?", nil), types.NewStruct(nil, nil), nil))
	for _, l := range []*types.TypeParamList{sig.TypeParams(), sig.RecvTypeParams()} {
		for i := 0; l != nil && i < l.Len(); i++ {
			f.tsub[l.At(i)] = opaque
		}
	}
	for i, p := range params {
		v := vc.fresh("p_"+p.Name(), f.sortOf(p.Type()))
		st.env[envKey{p, ""}] = v
		vc.entryVals = append(vc.entryVals, NamedTerm{p.Name(), v})
		if sp != nil && i < len(sp.Params) {
			f.specEnv[envKey{sp.Params[i], ""}] = v
		}
	}
	for _, p := range params {
		for _, fact := range f.typeFacts(st, st.env[envKey{p, ""}], p.Type()) {
			vc.assume(st, fact)
		}

	}
	for _, r := range f.results {
		if r.Name() != "" && r.Name() != "_" {
			f.declareZero(st, r)
		}
	}
	// ghost state: every package-level variable of the contract files is materialised now, so that a later
	// "modifies everything" havoc (which leaves ghost state alone) finds it in the state
	vc.ghostKeys = map[string]bool{}
	for _, pk := range prog.Pkgs {
		if pk.Types == nil || !strings.HasPrefix(pk.PkgPath, "github.com/mazrean/kessoku") {
			continue
		}
		sc := pk.Types.Scope()
		for _, nm := range sc.Names() {
			v, ok := sc.Lookup(nm).(*types.Var)
			if !ok || !prog.isSpecVar(v) {
				continue
			}
			if mt, isMap := v.Type().Underlying().(*types.Map); isMap {
				ks, vs := vc.mapSorts(mt)
				key := ghostMapKey(v)
				vc.heapGet(st, key, ArraySort(ks, vs))
				vc.ghostKeys[key] = true
				continue
			}
			func() {
				defer func() { _ = recover() }() // variables of types kvc has no sort for are simply not materialised
				key := "G:" + v.Pkg().Name() + "." + v.Name()
				vc.heapGet(st, key, vc.sortOf(v.Type()))
				vc.ghostKeys[key] = true
			}()
		}
	}
	// axioms of the package (trusted)
	for _, ax := range prog.Axioms[fi.Pkg.PkgPath] {
		af := &Frame{vc: vc, pk: fi.Pkg, spec: true, bound: map[types.Object]Term{}, closures: map[types.Object]*ast.FuncLit{}}
		rs := af.inline(st, fi.Pkg, ax, nil, nil, nil, true, ax.Pos())
		if len(rs) == 1 {
			vc.assumeGlobal(rs[0])
		}
	}
	vc.assume(st, app(SBool, ">=", vc.alloc(st), IntLit(1)))
	f.assumeTypeInvs(st, fi.Decl.Pos())
	f.old = st.clone()
	if sp != nil {
		sf := &Frame{vc: vc, pk: sp.Pkg, spec: true, old: f.old, specEnv: f.specEnv, tsub: f.tsub, bound: map[types.Object]Term{}}
		for _, c := range sp.Requires {
			vc.assume(st, sf.expr(st, c.Expr))
		}
		for _, m := range sp.Monitors {
			f.monitors = append(f.monitors, monitor{label: m.Label, expr: m.Expr, pk: sp.Pkg, env: f.specEnv})
		}
	}
	vc.cover(st, "cover.entry", fi.Decl.Pos())
	if len(f.monitors) > 0 {
		f.checkMonitors(st, "entry", fi.Decl.Pos())
	}
	outs := f.block(st, fi.Decl.Body.List)
	for _, o := range outs {
		switch o.kind {
		case oFall:
			if len(f.results) > 0 && !(f.results[0].Name() != "") {
				vc.fail(fi.Decl.End(), "function falls off its end")
			}
			var vals []Term
			for _, r := range f.results {
				vals = append(vals, f.lookupVar(o.st, r, fi.Decl.End()))
			}
			f.doReturn(o.st, vals, fi.Decl.End())
		case oRet:
		default:
			vc.fail(fi.Decl.Pos(), "stray break/continue")
		}
	}
	// a loop / ghost specification whose anchor matches nothing is reported as a failed obligation of its own
	top := &State{env: map[envKey]Term{}, heap: map[string]Term{}, base: &lazyBase{epoch: 0}, pc: True}
	for _, ls := range fi.Loops {
		if !ls.Used {
			vc.obls = append(vc.obls, &Obligation{Name: fi.Key + "/attach." + loopName(ls, ""), Kind: "attach", Func: fi.Key, ScriptLen: 0, Goal: False,
				Text: fmt.Sprintf("loop anchor %q matches no loop of %s (invariant detached from the code)", ls.Anchor, fi.Key)})
		}
		ls.Used = false
	}
	for _, g := range fi.Ghost {
		if !g.Used {
			vc.obls = append(vc.obls, &Obligation{Name: fi.Key + "/attach.ghost[" + g.Anchor + "]", Kind: "attach", Func: fi.Key, ScriptLen: 0, Goal: False,
				Text: fmt.Sprintf("ghost anchor %q matches no statement of %s", g.Anchor, fi.Key)})
		}
		g.Used = false
	}
	_ = top
	return vc, nil
}

type runCfg struct {
	workDir   string
	timeoutS  int
	seed      int
	needAgree int
	par       int
	filter    func(name string) bool
}

// discharge runs the solvers on the obligations selected by cfg.filter.
var solverSlots = make(chan struct{}, maxInt(2, (runtime.NumCPU()*2)/5))

func discharge(vc *VC, cfg runCfg) []*OblResult {
	reseedBudget := int32(6)
	if os.Getenv("KVC_NORESEED") != "" {
		reseedBudget = 0 // robustness testing: report what a single seed does
	}
	var sel []*Obligation
	for _, o := range vc.obls {
		if cfg.filter == nil || cfg.filter(o.Name) {
			sel = append(sel, o)
		}
	}
	res := make([]*OblResult, len(sel))
	// one global limit on obligations in flight: every obligation races three solver processes, and an oversubscribed
	// machine turns 3 s proofs into 10 s timeouts (measured: seed- and load-dependent false alarms in full runs)
	sem := solverSlots
	var wg sync.WaitGroup
	for i, o := range sel {
		wg.Add(1)
		go func(i int, o *Obligation) {
			defer wg.Done()
			sem <- struct{}{}
			defer func() { <-sem }()
			file, err := writeQuery(filepath.Join(cfg.workDir, mangle(vc.fi.Key)), o.Name, vc.query(o))
			r := &OblResult{Name: o.Name, Kind: o.Kind, Func: o.Func, Pos: o.Pos, Text: normSpace(o.Text), SMT2: file}
			res[i] = r
			if err != nil {
				r.Status, r.Result = "undecided", "error: "+err.Error()
				return
			}
			need := cfg.needAgree
			if o.Expect == "not-unsat" {
				need = 1
			}
			ocfg := cfg
			if o.Expect == "not-unsat" && ocfg.timeoutS > 4 {
				ocfg.timeoutS = 4 // a contradictory contract is refuted at once; the usual answer here is a timeout
			}
			sr := cachedSolve(ocfg, vc.query(o), file, need)
			r.Result, r.Backend, r.TimeS = sr.Status, sr.Backend, sr.TimeS
			if o.Expect == "not-unsat" {
				if sr.Status == "unsat" {
					r.Status = "vacuous"
				} else {
					r.Status = "cover-ok"
				}
				return
			}
			switch sr.Status {
			case "unsat":
				r.Status = "discharged"
			case "sat":
				r.Status = "failed"
				r.Model = parseValues(sr.Output, o.Values)
				r.Output = truncate(sr.Output, 2000)
			default:
				// An "unknown"/timeout depends on the solvers' random seeds (measured: an obligation proved in 0.7 s under
				// five seeds ran into the timeout under a sixth). unsat under ANY seed is a proof, so an undecided query
				// is asked again under two other seeds before it is reported; at most reseedBudget queries per function,
				// so that a genuinely broken function (many failing obligations) is not slowed down much.
				if atomic.AddInt32(&reseedBudget, -1) >= 0 {
					for _, delta := range []int{7919, 104729} {
						rs := solveFile(file, cfg.timeoutS, cfg.seed+delta, 1)
						if rs.Status == "unsat" {
							r.Status, r.Result, r.Backend, r.TimeS = "discharged", "unsat", rs.Backend+" (reseeded)", sr.TimeS+rs.TimeS
							return
						}
						if rs.Status == "sat" {
							sr = rs
							break
						}
					}
					if sr.Status == "sat" {
						r.Status, r.Result = "failed", "sat"
						r.Model = parseValues(sr.Output, o.Values)
						r.Output = truncate(sr.Output, 2000)
						return
					}
				}
				r.Status = "undecided"
				r.Output = truncate(sr.Output, 600)
				// no model: the solvers cannot answer sat in the presence of quantified hypotheses. Ask again without
				// them; a model of the relaxed query is only a CANDIDATE counterexample (to be replayed on the real code).
				if rf, err := writeQuery(filepath.Join(cfg.workDir, mangle(vc.fi.Key)), o.Name+"_relaxed", vc.relaxedQuery(o)); err == nil {
					rr := solveFile(rf, 5, cfg.seed, 1)
					if rr.Status == "sat" {
						r.Model = parseValues(rr.Output, o.Values)
						r.Output = "candidate model from the query without quantified hypotheses (" + rf + "):\n" + truncate(rr.Output, 1500)
					}
				}
			}
		}(i, o)
	}
	wg.Wait()
	return res
}

// parseValues reads a (get-value ...) answer: ((t1 v1) (t2 v2) ...).
func parseValues(out string, want []NamedTerm) map[string]string {
	m := map[string]string{}
	s := strings.TrimSpace(out)
	if !strings.HasPrefix(s, "(") {
		return m
	}
	// tokenise top-level pairs
	depth := 0
	start := -1
	var pairs []string
	for i, c := range s {
		switch c {
		case '(':
			depth++
			if depth == 2 {
				start = i
			}
		case ')':
			if depth == 2 && start >= 0 {
				pairs = append(pairs, s[start+1:i])
				start = -1
			}
			depth--
		case '"':
			// skip string literal
		}
	}
	// string literals may contain parentheses: re-scan carefully
	pairs = splitPairs(s)
	for i, p := range pairs {
		if i >= len(want) {
			break
		}
		t := want[i].T.S
		v := strings.TrimSpace(strings.TrimPrefix(strings.TrimSpace(p), t))
		m[want[i].Name] = v
	}
	return m
}

func splitPairs(s string) []string {
	var pairs []string
	depth := 0
	start := -1
	inStr := false
	for i := 0; i < len(s); i++ {
		c := s[i]
		if inStr {
			if c == '"' {
				if i+1 < len(s) && s[i+1] == '"' {
					i++
					continue
				}
				inStr = false
			}
			continue
		}
		switch c {
		case '"':
			inStr = true
		case '(':
			depth++
			if depth == 2 {
				start = i
			}
		case ')':
			if depth == 2 && start >= 0 {
				pairs = append(pairs, s[start+1:i])
				start = -1
			}
			depth--
		}
	}
	return pairs
}

func sortedFuncInfos(prog *Program) []*FuncInfo {
	var out []*FuncInfo
	for _, fi := range prog.Funcs {
		if fi.Kind == KContract && fi.Spec != nil && !fi.Spec.Trusted {
			out = append(out, fi)
		}
	}
	for _, fi := range prog.AspectFuncs {
		if fi.Kind == KContract && fi.Spec != nil && !fi.Spec.Trusted {
			out = append(out, fi)
		}
	}
	sort.Slice(out, func(i, j int) bool { return out[i].Key < out[j].Key })
	return out
}

// cachedSolve: identical query text (same tier parameters) => identical answer. Results are kept under
// work/qcache so that obligations shared by several properties are solved once per tree; the cache is
// keyed by the SHA-256 of the full query, so any change to the code or to a contract misses it.
func cachedSolve(cfg runCfg, query, file string, need int) SolveResult {
	sum := sha256.Sum256([]byte(fmt.Sprintf("%d|%d|%d|", cfg.timeoutS, need, cfg.seed) + query))
	dir := filepath.Join(verifDir, "work", "qcache")
	path := filepath.Join(dir, hex.EncodeToString(sum[:])+".json")
	if os.Getenv("KVC_NOCACHE") == "" {
		if b, err := os.ReadFile(path); err == nil {
			var sr SolveResult
			if json.Unmarshal(b, &sr) == nil && (sr.Status == "unsat" || sr.Status == "sat") {
				sr.Backend += " (cached)"
				return sr
			}
		}
	}
	sr := solveFile(file, cfg.timeoutS, cfg.seed, need)
	if sr.Status == "unsat" || sr.Status == "sat" {
		_ = os.MkdirAll(dir, 0o755)
		if b, err := json.Marshal(sr); err == nil {
			_ = os.WriteFile(path, b, 0o644)
		}
	}
	return sr
}

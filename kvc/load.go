package main

import (
	"fmt"
	"go/ast"
	"go/token"
	"go/types"
	"os"
	"regexp"
	"sort"
	"strings"
	"sync"

	"golang.org/x/tools/go/packages"
)

var repoDir = "/repo"

const modulePath = "github.com/mazrean/kessoku"

var loadPatterns = []string{
	"./internal/kessoku", "./internal/llmsetup", "./internal/migrate",
	"./internal/pkg/collection", "./internal/pkg/strings", "./internal/verifspec", ".", "./cmd/kessoku",
}

// goEnv is the environment that makes the go tool work offline on /repo
// without touching go.work.sum (see DESIGN §2).
func goEnv() []string {
	env := []string{}
	for _, kv := range os.Environ() {
		k := kv[:strings.Index(kv, "=")]
		switch k {
		case "GOWORK", "GOFLAGS", "GOPROXY", "GOTOOLCHAIN", "GOSUMDB":
			continue
		}
		env = append(env, kv)
	}
	return append(env, "GOWORK=off", "GOFLAGS=-mod=readonly", "GOPROXY=off", "GOTOOLCHAIN=go1.25.5")
}

// TypeInv: a data-structure invariant of an encapsulated type (//kvc:typeinv <Type> <constructor>...), given as a
// nullary boolean spec function quantifying over all allocated objects of the type. kvc assumes it at function entry
// and after every call whose contract is ModifiesAll. Justification, checked syntactically at load time (Breaches):
// outside the type's own methods and the named constructors nobody writes a field of the type, takes its address,
// lets a field value escape or builds a value of the type - so only functions that are proved to re-establish the
// invariant (they carry it as a postcondition) can change the state it talks about.
type TypeInv struct {
	Type     *types.Named
	Pkg      *packages.Package
	Decl     *ast.FuncDecl
	Ctors    map[string]bool
	Breaches []string
}

// FinalField: a struct field that is assigned only when its object is built (//kvc:final <Type>.<field> ...): a call whose
// contract is ModifiesAll leaves it unchanged on every object that existed before the call. Justified by a syntactic
// scan on every load (Breaches): no assignment to the field and no address-of anywhere in the package's sources.
type FinalField struct {
	Key      string // heap key
	PkgPath  string
	Name     string // Type.field
	Sort     types.Type
	Breaches []string
}

type modelDef struct {
	Decl *ast.FuncDecl
	Pkg  *packages.Package
}

// modelFor: the model a caller in package pk sees.
func (fi *FuncInfo) modelFor(pk *packages.Package) (*ast.FuncDecl, *packages.Package) {
	if pk != nil {
		if m, ok := fi.Models[pk.PkgPath]; ok {
			return m.Decl, m.Pkg
		}
	}
	return fi.Model, fi.MPkg
}

type FuncKind int

const (
	KNone     FuncKind = iota
	KContract          // has a contract; verified if it has a body in the repo
	KModel             // trusted inline model (external function)
	KInline            // real body is inlined at call sites
	KPure              // trusted: uninterpreted function of its arguments
	KSpec              // spec function (declared in a contract file / verifspec); inlined
)

type Clause struct {
	Label string
	Expr  ast.Expr
	Deps  []string // for invariant clauses: labels this clause's preservation may assume (nil = all)
}

type Spec struct {
	Pkg      *packages.Package
	Decl     *ast.FuncDecl // the contract function
	Params   []*types.Var  // receiver first
	Results  []*types.Var
	Requires []Clause
	Ensures  []Clause
	Modifies []ast.Expr
	ModAll   bool // vs.ModifiesAll(): callee may change any heap location
	// UsesTypeInv (vs.TypeInvariants()): the proof of this function relies on the declared type invariants
	// (assumed at entry and after ModifiesAll calls; the encapsulation scan becomes an obligation of this function)
	UsesTypeInv bool
	Allocs      bool
	Trusted     bool     // contract on a function with no body in the repo (assumed)
	Effect      bool     // vs.Effect(): an externally visible effect (crash points are checked after it)
	Monitors    []Clause // vs.Monitor(label, expr): must hold at entry and after every effectful call
	Witness     []Clause // vs.Witness(label, expr): terms whose model values are reported for failed postconditions
}

type LoopSpec struct {
	Anchor string
	Pkg    *packages.Package
	Decl   *ast.FuncDecl
	Params []*types.Var
	Invs   []Clause
	Used   bool
}

type FuncInfo struct {
	Key   string
	Obj   *types.Func
	Pkg   *packages.Package // package holding the body (nil if external)
	Decl  *ast.FuncDecl
	Kind  FuncKind
	Spec  *Spec
	Model *ast.FuncDecl // for KModel
	// Aspect: "" for the function's main contract. A contract directive `<FuncKey>@<aspect>` declares a second,
	// independent contract of the same function (own ghost code and loop invariants, tagged the same way): the
	// function is verified once per aspect, and a call made while aspect A is verified uses the callee's aspect-A
	// contract when it has one. Two valid specifications of the same code; keeps unrelated invariants out of each
	// other's verification conditions.
	Aspect  string
	Aspects map[string]*FuncInfo
	// Opaque: spec functions kept uninterpreted while THIS function is verified (//kvc:opaque <FuncKey> <spec>...):
	// an application becomes an uninterpreted function of its arguments and of the heap arrays the spec function
	// reads, so facts about it are carried by congruence instead of being re-derived through its definition.
	Opaque map[string]bool
	// Models: one trusted model per spec package; a caller uses the model of its own package when there is one
	Models map[string]modelDef
	MPkg   *packages.Package
	Loops  []*LoopSpec
	Ghost  []*GhostSpec
	Split  bool
}

// GhostSpec: ghost statements (a Go function from the contract file) executed
// at an anchor inside the target function.
type GhostSpec struct {
	Anchor string
	Before bool
	Pkg    *packages.Package
	Decl   *ast.FuncDecl
	Params []*types.Var
	Used   bool
}

type Program struct {
	paramVars map[types.Object]bool // parameters and receivers of all loaded functions (lazily, see isParamVar)
	paramOnce sync.Once
	Fset      *token.FileSet
	Pkgs      map[string]*packages.Package // by path
	ByName    map[string]*packages.Package // by package name (repo packages)
	Funcs     map[*types.Func]*FuncInfo
	ByKey     map[string]*FuncInfo
	SpecFile  map[*ast.File]bool
	decls     map[*types.Func]*ast.FuncDecl
	declPkg   map[*types.Func]*packages.Package
	Problems  []string
	// TrustedPkg: assumption text -> package whose contract file introduced it (evidence lists only the relevant ones)
	TrustedPkg map[string]string
	Trusted    []string
	PurePkgs   map[string]bool
	Axioms     map[string][]*ast.FuncDecl // package path -> axiom functions
	TypeInvs   []*TypeInv                 // //kvc:typeinv declarations
	Finals     []*FinalField              // //kvc:final declarations
	// AspectFuncs: the per-aspect clones of functions that have more than one contract
	AspectFuncs []*FuncInfo
}

func isContractFile(name string) bool {
	base := name[strings.LastIndex(name, "/")+1:]
	return strings.HasPrefix(base, "zz_") && strings.HasSuffix(base, "_verif.go")
}

func loadProgram() (*Program, error) {
	fset := token.NewFileSet()
	cfg := &packages.Config{
		Mode:       packages.LoadAllSyntax,
		Dir:        repoDir,
		Fset:       fset,
		BuildFlags: []string{"-tags=verif"},
		Env:        goEnv(),
	}
	pkgs, err := packages.Load(cfg, loadPatterns...)
	if err != nil {
		return nil, err
	}
	p := &Program{
		Fset: fset, Pkgs: map[string]*packages.Package{}, ByName: map[string]*packages.Package{},
		Funcs: map[*types.Func]*FuncInfo{}, ByKey: map[string]*FuncInfo{}, SpecFile: map[*ast.File]bool{},
		decls: map[*types.Func]*ast.FuncDecl{}, declPkg: map[*types.Func]*packages.Package{}, PurePkgs: map[string]bool{}, Axioms: map[string][]*ast.FuncDecl{},
	}
	for _, pk := range pkgs {
		for _, e := range pk.Errors {
			return nil, fmt.Errorf("load %s: %v", pk.PkgPath, e)
		}
	}
	packages.Visit(pkgs, nil, func(pk *packages.Package) { p.Pkgs[pk.PkgPath] = pk })
	for _, pk := range pkgs {
		p.ByName[pk.Name] = pk
		if pk.PkgPath == "github.com/mazrean/kessoku" {
			p.ByName["kessokuroot"] = pk
		}
		for _, f := range pk.Syntax {
			fn := fset.Position(f.Pos()).Filename
			if isContractFile(fn) || pk.Name == "verifspec" {
				p.SpecFile[f] = true
			}
			for _, d := range f.Decls {
				if fd, ok := d.(*ast.FuncDecl); ok {
					if obj, ok := pk.TypesInfo.Defs[fd.Name].(*types.Func); ok {
						p.decls[obj] = fd
						p.declPkg[obj] = pk
					}
				}
			}
		}
	}
	// contract files
	for _, pk := range pkgs {
		for _, f := range pk.Syntax {
			if !p.SpecFile[f] || pk.Name == "verifspec" {
				continue
			}
			p.parseContractFile(pk, f)
		}
	}
	return p, nil
}

var directiveRe = regexp.MustCompile(`^//kvc:(\w+)\s*(.*)$`)

// trust records an unchecked assumption introduced by the contract files of package pk.
func (p *Program) trust(pk *packages.Package, text string) {
	p.Trusted = append(p.Trusted, text)
	if p.TrustedPkg == nil {
		p.TrustedPkg = map[string]string{}
	}
	p.TrustedPkg[text] = pk.PkgPath
}

func (p *Program) problem(format string, a ...any) {
	p.Problems = append(p.Problems, fmt.Sprintf(format, a...))
}

func (p *Program) parseContractFile(pk *packages.Package, f *ast.File) {
	docOwner := map[*ast.CommentGroup]*ast.FuncDecl{}
	for _, d := range f.Decls {
		if fd, ok := d.(*ast.FuncDecl); ok && fd.Doc != nil {
			docOwner[fd.Doc] = fd
		}
	}
	for _, cg := range f.Comments {
		for _, c := range cg.List {
			m := directiveRe.FindStringSubmatch(c.Text)
			if m == nil {
				continue
			}
			kind, rest := m[1], strings.TrimSpace(m[2])
			owner := docOwner[cg]
			switch kind {
			case "contract", "model":
				fi := p.resolveFunc(pk, rest)
				if fi == nil {
					p.problem("%s: cannot resolve function %q", p.Fset.Position(c.Pos()), rest)
					continue
				}
				if owner == nil {
					p.problem("%s: //kvc:%s must be the doc comment of a function", p.Fset.Position(c.Pos()), kind)
					continue
				}
				if kind == "model" {
					fi.Kind = KModel
					if fi.Models == nil {
						fi.Models = map[string]modelDef{}
					}
					fi.Models[pk.PkgPath] = modelDef{owner, pk}
					// default (for callers in packages without a model of their own): the model of the
					// alphabetically first package, so that the choice does not depend on load order
					if fi.MPkg == nil || pk.PkgPath < fi.MPkg.PkgPath {
						fi.Model = owner
						fi.MPkg = pk
					}
					p.trust(pk, "model of "+fi.Key+" (inlined, trusted)")
				} else {
					fi.Kind = KContract
					fi.Spec = p.parseSpec(pk, owner, fi)
					if fi.Decl == nil || fi.Decl.Body == nil {
						fi.Spec.Trusted = true
						p.trust(pk, "contract of "+fi.Key+" (no body in repo, assumed)")
					}
				}
			case "opaque":
				parts := strings.Fields(rest)
				if len(parts) < 2 {
					p.problem("%s: //kvc:opaque <FuncKey> <spec function>...", p.Fset.Position(c.Pos()))
					continue
				}
				fi := p.resolveFunc(pk, parts[0])
				if fi == nil {
					p.problem("%s: cannot resolve function %q", p.Fset.Position(c.Pos()), parts[0])
					continue
				}
				if fi.Opaque == nil {
					fi.Opaque = map[string]bool{}
				}
				for _, n := range parts[1:] {
					fi.Opaque[n] = true
				}
			case "final":
				for _, spec := range strings.Fields(rest) {
					i := strings.Index(spec, ".")
					if i < 0 {
						p.problem("%s: //kvc:final wants Type.field", p.Fset.Position(c.Pos()))
						continue
					}
					tn, _ := pk.Types.Scope().Lookup(spec[:i]).(*types.TypeName)
					var fv *types.Var
					if tn != nil {
						if st, ok := tn.Type().Underlying().(*types.Struct); ok {
							for k := 0; k < st.NumFields(); k++ {
								if st.Field(k).Name() == spec[i+1:] {
									fv = st.Field(k)
								}
							}
						}
					}
					if fv == nil {
						p.problem("%s: //kvc:final: unknown field %s", p.Fset.Position(c.Pos()), spec)
						continue
					}
					ff := &FinalField{Key: fieldKey(structName(tn.Type()), fv.Name()), PkgPath: pk.PkgPath, Name: spec, Sort: fv.Type()}
					if fv.Exported() {
						// an exported field can be assigned from any package of the module: scan them all
						for path, other := range p.Pkgs {
							if other != pk && strings.HasPrefix(path, modulePath) && len(other.Syntax) > 0 {
								ff.Breaches = append(ff.Breaches, p.fieldAssignments(other, fv)...)
							}
						}
					}
					ff.Breaches = append(ff.Breaches, p.fieldAssignments(pk, fv)...)
					sort.Strings(ff.Breaches)
					p.Finals = append(p.Finals, ff)
					p.trust(pk, "field "+spec+" is assigned only at construction (syntactic scan on every run); ModifiesAll calls keep it")
				}
			case "typeinv":
				parts := strings.Fields(rest)
				if owner == nil || len(parts) == 0 {
					p.problem("%s: //kvc:typeinv <Type> [constructors] must be the doc comment of a function", p.Fset.Position(c.Pos()))
					continue
				}
				tn, _ := pk.Types.Scope().Lookup(parts[0]).(*types.TypeName)
				if tn == nil {
					p.problem("%s: //kvc:typeinv: unknown type %s", p.Fset.Position(c.Pos()), parts[0])
					continue
				}
				named, _ := tn.Type().(*types.Named)
				if named == nil {
					p.problem("%s: //kvc:typeinv: %s is not a named type", p.Fset.Position(c.Pos()), parts[0])
					continue
				}
				ti := &TypeInv{Type: named, Pkg: pk, Decl: owner, Ctors: map[string]bool{}}
				for _, c := range parts[1:] {
					ti.Ctors[c] = true
				}
				ti.Breaches = p.encapsulationBreaches(ti)
				p.TypeInvs = append(p.TypeInvs, ti)
				p.trust(pk, "type invariant "+owner.Name.Name+" of "+parts[0]+" assumed at entries and after ModifiesAll calls (encapsulation checked syntactically; methods prove it as a postcondition)")
			case "axiom":
				if owner == nil {
					p.problem("%s: //kvc:axiom must be the doc comment of a function", p.Fset.Position(c.Pos()))
					continue
				}
				p.Axioms[pk.PkgPath] = append(p.Axioms[pk.PkgPath], owner)
				p.trust(pk, "axiom "+owner.Name.Name+" (assumed)")
			case "split":
				fi := p.resolveFunc(pk, rest)
				if fi == nil {
					p.problem("%s: cannot resolve function %q", p.Fset.Position(c.Pos()), rest)
					continue
				}
				fi.Split = true
			case "purepkg":
				if !p.PurePkgs[rest] {
					p.PurePkgs[rest] = true
					p.trust(pk, "every function of package "+rest+" is an uninterpreted, heap-independent function of its arguments")
				}
			case "inline", "pure":
				fi := p.resolveFunc(pk, rest)
				if fi == nil {
					p.problem("%s: cannot resolve function %q", p.Fset.Position(c.Pos()), rest)
					continue
				}
				if kind == "inline" {
					fi.Kind = KInline
				} else {
					fi.Kind = KPure
					p.trust(pk, "pure (uninterpreted, heap-independent): "+fi.Key)
				}
			case "loop":
				// //kvc:loop <FuncKey> "anchor"
				key, anchor, ok := splitAnchor(rest)
				if !ok || owner == nil {
					p.problem("%s: malformed //kvc:loop", p.Fset.Position(c.Pos()))
					continue
				}
				fi := p.resolveFunc(pk, key)
				if fi == nil {
					p.problem("%s: cannot resolve function %q", p.Fset.Position(c.Pos()), key)
					continue
				}
				ls := &LoopSpec{Anchor: anchor, Pkg: pk, Decl: owner}
				ls.Params = funcParams(pk, owner)
				ls.Invs = p.parseClauses(pk, owner, "Invariant")
				fi.Loops = append(fi.Loops, ls)
			case "ghost":
				// //kvc:ghost <FuncKey> before|after "anchor"
				parts := strings.SplitN(rest, " ", 3)
				if len(parts) < 3 || owner == nil {
					p.problem("%s: malformed //kvc:ghost", p.Fset.Position(c.Pos()))
					continue
				}
				fi := p.resolveFunc(pk, parts[0])
				anchor := strings.Trim(strings.TrimSpace(parts[2]), `"`)
				if fi == nil {
					p.problem("%s: cannot resolve function %q", p.Fset.Position(c.Pos()), parts[0])
					continue
				}
				fi.Ghost = append(fi.Ghost, &GhostSpec{Anchor: anchor, Before: parts[1] == "before", Pkg: pk, Decl: owner, Params: funcParams(pk, owner)})
			default:
				p.problem("%s: unknown directive kvc:%s", p.Fset.Position(c.Pos()), kind)
			}
		}
	}
}

func splitAnchor(s string) (string, string, bool) {
	i := strings.Index(s, `"`)
	j := strings.LastIndex(s, `"`)
	if i < 0 || j <= i {
		return "", "", false
	}
	return strings.TrimSpace(s[:i]), s[i+1 : j], true
}

func funcParams(pk *packages.Package, fd *ast.FuncDecl) []*types.Var {
	obj := pk.TypesInfo.Defs[fd.Name].(*types.Func)
	sig := obj.Type().(*types.Signature)
	var out []*types.Var
	if sig.Recv() != nil {
		out = append(out, sig.Recv())
	}
	for i := 0; i < sig.Params().Len(); i++ {
		out = append(out, sig.Params().At(i))
	}
	return out
}

func funcResults(pk *packages.Package, fd *ast.FuncDecl) []*types.Var {
	obj := pk.TypesInfo.Defs[fd.Name].(*types.Func)
	sig := obj.Type().(*types.Signature)
	var out []*types.Var
	for i := 0; i < sig.Results().Len(); i++ {
		out = append(out, sig.Results().At(i))
	}
	return out
}

// resolveFunc resolves "(*T).M", "T.M", "F", "pkg.F", "(*pkg.T).M".
func (p *Program) resolveFunc(pk *packages.Package, key string) *FuncInfo {
	if fi, ok := p.ByKey[pk.PkgPath+"::"+key]; ok {
		return fi
	}
	if i := strings.LastIndex(key, "@"); i > 0 && !strings.Contains(key[i:], ")") {
		base := p.resolveFunc(pk, key[:i])
		if base == nil {
			return nil
		}
		asp := key[i+1:]
		if base.Aspects == nil {
			base.Aspects = map[string]*FuncInfo{}
		}
		c, ok := base.Aspects[asp]
		if !ok {
			cp := *base
			c = &cp
			c.Key = base.Key + "@" + asp
			c.Aspect = asp
			c.Aspects = nil
			c.Spec = nil
			c.Loops = nil
			c.Ghost = nil
			c.Opaque = nil
			c.Kind = KNone
			base.Aspects[asp] = c
			p.AspectFuncs = append(p.AspectFuncs, c)
		}
		p.ByKey[pk.PkgPath+"::"+key] = c
		return c
	}
	recv, name := "", key
	if strings.Contains(key, "/") && !strings.HasPrefix(key, "(") {
		// full import path: path/to/pkg.Func
		i := strings.LastIndex(key, ".")
		if ip, ok := p.Pkgs[key[:i]]; ok && ip.Types != nil {
			if fn, ok := ip.Types.Scope().Lookup(key[i+1:]).(*types.Func); ok {
				fi := p.funcInfo(fn)
				p.ByKey[pk.PkgPath+"::"+key] = fi
				return fi
			}
		}
		return nil
	}
	if strings.HasPrefix(key, "(") {
		i := strings.Index(key, ").")
		if i < 0 {
			return nil
		}
		recv = strings.TrimPrefix(key[1:i], "*")
		name = key[i+2:]
	} else if i := strings.LastIndex(key, "."); i >= 0 {
		recv, name = key[:i], key[i+1:]
	}
	var scope *types.Scope
	lookupPkg := func(pname string) *types.Package {
		for _, imp := range pk.Types.Imports() {
			if imp.Name() == pname {
				return imp
			}
		}
		// file-level alias
		for _, f := range pk.Syntax {
			for _, is := range f.Imports {
				if is.Name != nil && is.Name.Name == pname {
					if pn, ok := pk.TypesInfo.Defs[is.Name].(*types.PkgName); ok {
						return pn.Imported()
					}
				}
			}
		}
		return nil
	}
	var obj types.Object
	scope = pk.Types.Scope()
	if recv != "" {
		// recv may be "T", "pkg.T" or "pkg" (for pkg.F)
		if i := strings.Index(recv, "."); i >= 0 {
			ip := lookupPkg(recv[:i])
			if ip == nil {
				return nil
			}
			scope = ip.Scope()
			recv = recv[i+1:]
		}
		if tobj := scope.Lookup(recv); tobj != nil {
			if tn, ok := tobj.(*types.TypeName); ok {
				o, _, _ := types.LookupFieldOrMethod(types.NewPointer(tn.Type()), true, tn.Pkg(), name)
				obj = o
				if obj == nil {
					// interface method
					o, _, _ = types.LookupFieldOrMethod(tn.Type(), true, tn.Pkg(), name)
					obj = o
				}
			}
		} else if ip := lookupPkg(recv); ip != nil && !strings.HasPrefix(key, "(") {
			obj = ip.Scope().Lookup(name)
		}
	} else {
		obj = scope.Lookup(name)
	}
	fn, ok := obj.(*types.Func)
	if !ok || fn == nil {
		return nil
	}
	fn = fn.Origin()
	fi := p.funcInfo(fn)
	fi.Key = key
	p.ByKey[pk.PkgPath+"::"+key] = fi
	return fi
}

func (p *Program) funcInfo(fn *types.Func) *FuncInfo {
	fn = fn.Origin()
	if fi, ok := p.Funcs[fn]; ok {
		return fi
	}
	fi := &FuncInfo{Obj: fn, Key: funcKey(fn)}
	if d, ok := p.decls[fn]; ok {
		fi.Decl = d
		fi.Pkg = p.declPkg[fn]
		if f := p.fileOf(fi.Pkg, d); f != nil && p.SpecFile[f] {
			fi.Kind = KSpec
		}
	}
	p.Funcs[fn] = fi
	return fi
}

// isSpecVar: package-level variable declared in a contract file.
func (p *Program) isSpecVar(v *types.Var) bool {
	for _, pk := range p.Pkgs {
		if pk.Types != v.Pkg() {
			continue
		}
		for _, f := range pk.Syntax {
			if p.SpecFile[f] && f.Pos() <= v.Pos() && v.Pos() < f.End() {
				return true
			}
		}
	}
	return false
}

func (p *Program) fileOf(pk *packages.Package, n ast.Node) *ast.File {
	for _, f := range pk.Syntax {
		if f.Pos() <= n.Pos() && n.Pos() < f.End() {
			return f
		}
	}
	return nil
}

func funcKey(fn *types.Func) string {
	sig := fn.Type().(*types.Signature)
	pkgName := ""
	if fn.Pkg() != nil {
		pkgName = fn.Pkg().Name() + "."
	}
	if r := sig.Recv(); r != nil {
		t := r.Type()
		star := ""
		if pt, ok := t.(*types.Pointer); ok {
			t = pt.Elem()
			star = "*"
		}
		name := t.String()
		if nt, ok := t.(*types.Named); ok {
			name = nt.Obj().Name()
		}
		if star != "" {
			return "(*" + pkgName + name + ")." + fn.Name()
		}
		return pkgName + name + "." + fn.Name()
	}
	return pkgName + fn.Name()
}

// parseClauses extracts vs.<kind>("label", expr) calls from a function body.
func (p *Program) parseClauses(pk *packages.Package, fd *ast.FuncDecl, kind string) []Clause {
	var out []Clause
	for _, s := range fd.Body.List {
		es, ok := s.(*ast.ExprStmt)
		if !ok {
			continue
		}
		call, ok := es.X.(*ast.CallExpr)
		if !ok {
			continue
		}
		name := vsCallName(pk, call)
		if name != kind {
			continue
		}
		if len(call.Args) < 2 {
			p.problem("%s: %s needs (label, expr)", p.Fset.Position(call.Pos()), kind)
			continue
		}
		lbl := stringConst(pk, call.Args[0])
		cl := Clause{Label: lbl, Expr: call.Args[1]}
		for _, d := range call.Args[2:] {
			cl.Deps = append(cl.Deps, stringConst(pk, d))
		}
		out = append(out, cl)
	}
	return out
}

func stringConst(pk *packages.Package, e ast.Expr) string {
	if tv, ok := pk.TypesInfo.Types[e]; ok && tv.Value != nil {
		s := tv.Value.ExactString()
		if len(s) >= 2 && s[0] == '"' {
			var out string
			fmt.Sscanf(s, "%q", &out)
			return out
		}
		return s
	}
	return "?"
}

// vsCallName returns the name of the verifspec function being called, or "".
func vsCallName(pk *packages.Package, call *ast.CallExpr) string {
	fun := call.Fun
	if ix, ok := fun.(*ast.IndexExpr); ok { // explicit instantiation
		fun = ix.X
	}
	sel, ok := fun.(*ast.SelectorExpr)
	if !ok {
		return ""
	}
	obj := pk.TypesInfo.Uses[sel.Sel]
	if obj == nil || obj.Pkg() == nil || obj.Pkg().Name() != "verifspec" {
		return ""
	}
	return obj.Name()
}

func (p *Program) parseSpec(pk *packages.Package, fd *ast.FuncDecl, target *FuncInfo) *Spec {
	sp := &Spec{Pkg: pk, Decl: fd, Params: funcParams(pk, fd), Results: funcResults(pk, fd)}
	// arity check against the target
	tsig := target.Obj.Type().(*types.Signature)
	want := tsig.Params().Len()
	if tsig.Recv() != nil {
		want++
	}
	if len(sp.Params) != want || len(sp.Results) != tsig.Results().Len() {
		p.problem("%s: contract signature arity does not match %s", p.Fset.Position(fd.Pos()), target.Key)
	}
	for _, s := range fd.Body.List {
		es, ok := s.(*ast.ExprStmt)
		if !ok {
			continue
		}
		call, ok := es.X.(*ast.CallExpr)
		if !ok {
			continue
		}
		switch vsCallName(pk, call) {
		case "Requires":
			sp.Requires = append(sp.Requires, Clause{Label: fmt.Sprintf("pre%d", len(sp.Requires)), Expr: call.Args[0]})
		case "Ensures":
			sp.Ensures = append(sp.Ensures, Clause{Label: stringConst(pk, call.Args[0]), Expr: call.Args[1]})
		case "Modifies":
			sp.Modifies = append(sp.Modifies, call.Args...)
		case "ModifiesAll":
			sp.ModAll = true
		case "TypeInvariants":
			sp.UsesTypeInv = true
		case "Allocates":
			sp.Allocs = true
		case "Effect":
			sp.Effect = true
		case "Monitor":
			sp.Monitors = append(sp.Monitors, Clause{Label: stringConst(pk, call.Args[0]), Expr: call.Args[1]})
		case "Witness":
			sp.Witness = append(sp.Witness, Clause{Label: stringConst(pk, call.Args[0]), Expr: call.Args[1]})
		}
	}
	return sp
}

func (p *Program) sortedKeys() []string {
	var ks []string
	for _, fi := range p.Funcs {
		if fi.Kind == KContract && fi.Spec != nil && !fi.Spec.Trusted {
			ks = append(ks, fi.Key)
		}
	}
	sort.Strings(ks)
	return ks
}

// encapsulationBreaches scans the non-test, non-contract sources of the type's package (the fields are unexported; an
// exported field makes every loaded package a suspect and is reported) for code outside the type's methods and
// constructors that could change the state the invariant talks about.
func (p *Program) encapsulationBreaches(ti *TypeInv) []string {
	var out []string
	st, ok := ti.Type.Underlying().(*types.Struct)
	if !ok {
		return []string{ti.Type.Obj().Name() + " is not a struct type"}
	}
	fields := map[*types.Var]bool{}
	for i := 0; i < st.NumFields(); i++ {
		fields[st.Field(i)] = true
		if st.Field(i).Exported() {
			out = append(out, "field "+st.Field(i).Name()+" is exported")
		}
	}
	pk := ti.Pkg
	for _, file := range pk.Syntax {
		name := p.Fset.Position(file.Pos()).Filename
		if strings.HasSuffix(name, "_test.go") || strings.HasSuffix(name, "_verif.go") {
			continue
		}
		for _, d := range file.Decls {
			fd, ok := d.(*ast.FuncDecl)
			if !ok || fd.Body == nil {
				continue
			}
			if fd.Recv == nil && ti.Ctors[fd.Name.Name] {
				continue
			}
			if fd.Recv != nil && len(fd.Recv.List) == 1 {
				rt := pk.TypesInfo.TypeOf(fd.Recv.List[0].Type)
				if ptr, ok := rt.(*types.Pointer); ok {
					rt = ptr.Elem()
				}
				if types.Identical(rt, ti.Type) {
					continue
				}
			}
			var stack []ast.Node
			ast.Inspect(fd.Body, func(n ast.Node) bool {
				if n == nil {
					stack = stack[:len(stack)-1]
					return true
				}
				stack = append(stack, n)
				switch x := n.(type) {
				case *ast.CompositeLit:
					if t := pk.TypesInfo.TypeOf(x); t != nil && types.Identical(t, ti.Type) {
						out = append(out, fmt.Sprintf("%s: %s builds a %s value outside its constructors", p.Fset.Position(x.Pos()), fd.Name.Name, ti.Type.Obj().Name()))
					}
				case *ast.SelectorExpr:
					sel := pk.TypesInfo.Selections[x]
					if sel == nil || sel.Kind() != types.FieldVal {
						return true
					}
					fv, _ := sel.Obj().(*types.Var)
					if !fields[fv] {
						return true
					}
					// allowed: a plain read m[k] / len(m) of the field; everything else may write or leak the state
					if len(stack) >= 2 {
						switch par := stack[len(stack)-2].(type) {
						case *ast.IndexExpr:
							if par.X == x && !isWritten(stack, len(stack)-2) {
								return true
							}
						case *ast.CallExpr:
							if id, ok := par.Fun.(*ast.Ident); ok && id.Name == "len" {
								return true
							}
						}
					}
					out = append(out, fmt.Sprintf("%s: %s touches field %s of %s outside the type's methods", p.Fset.Position(x.Pos()), fd.Name.Name, fv.Name(), ti.Type.Obj().Name()))
				}
				return true
			})
		}
	}
	return out
}

// isWritten: the expression at stack[i] is assigned to, incremented, deleted from or has its address taken.
func isWritten(stack []ast.Node, i int) bool {
	if i == 0 {
		return false
	}
	e := stack[i]
	switch par := stack[i-1].(type) {
	case *ast.AssignStmt:
		for _, l := range par.Lhs {
			if l == e {
				return true
			}
		}
	case *ast.IncDecStmt:
		return par.X == e
	case *ast.UnaryExpr:
		return par.Op == token.AND
	}
	return false
}

// fieldAssignments lists every place in the non-test, non-contract sources of pk where field fv is assigned,
// incremented or has its address taken.
func (p *Program) fieldAssignments(pk *packages.Package, fv *types.Var) []string {
	var out []string
	for _, file := range pk.Syntax {
		name := p.Fset.Position(file.Pos()).Filename
		if strings.HasSuffix(name, "_test.go") || strings.HasSuffix(name, "_verif.go") {
			continue
		}
		var stack []ast.Node
		ast.Inspect(file, func(n ast.Node) bool {
			if n == nil {
				stack = stack[:len(stack)-1]
				return true
			}
			stack = append(stack, n)
			if x, ok := n.(*ast.SelectorExpr); ok {
				if sel := pk.TypesInfo.Selections[x]; sel != nil && sel.Kind() == types.FieldVal && sel.Obj() == fv && isWritten(stack, len(stack)-1) {
					out = append(out, fmt.Sprintf("%s: field %s is assigned after construction", p.Fset.Position(x.Pos()), fv.Name()))
				}
			}
			return true
		})
	}
	return out
}

package main

import (
	"fmt"
	"go/ast"
	"go/constant"
	"go/token"
	"go/types"
	"os"
	"strings"

	"golang.org/x/tools/go/packages"
	"golang.org/x/tools/go/types/typeutil"
)

func readFile(name string) ([]byte, error) { return os.ReadFile(name) }

// Frame is the context in which Go code (real or spec) is symbolically executed.
type Frame struct {
	rangeIdx  []envKey // index variables of the enclosing slice/int range loops
	vc        *VC
	pk        *packages.Package
	fi        *FuncInfo // function whose body is executed (loop specs / anchors); nil for spec code
	old       *State    // state Old(...) refers to
	spec      bool      // spec / ghost code: no safety obligations, partial operations are total
	results   []*types.Var
	defers    []*ast.FuncLit
	tsub      map[*types.TypeParam]types.Type
	guard     Term // extra guard for obligations raised inside short-circuit operands
	bound     map[types.Object]Term
	top       bool // executing the function under verification itself
	spc       *Spec
	specEnv   map[envKey]Term // contract params/results for the function under verification
	inOld     bool
	depth     int
	monitors  []monitor
	closures  map[types.Object]*ast.FuncLit
	split     bool // path splitting instead of merging (directive //kvc:split)
	openWorld bool // map-order obligations: helper functions without a contract are inlined
}

type monitor struct {
	label string
	expr  ast.Expr
	pk    *packages.Package
	env   map[envKey]Term
}

func (f *Frame) info() *types.Info { return f.pk.TypesInfo }

func (f *Frame) typeOf(e ast.Expr) types.Type {
	t := f.info().TypeOf(e)
	if t == nil {
		f.vc.fail(e.Pos(), "no type for expression")
	}
	return f.subst(t)
}

func (f *Frame) subst(t types.Type) types.Type {
	if len(f.tsub) == 0 {
		return t
	}
	switch u := t.(type) {
	case *types.TypeParam:
		if r, ok := f.tsub[u]; ok {
			return r
		}
		// receiver type params of methods are distinct objects: match by name
		for k, r := range f.tsub {
			if k.Obj().Name() == u.Obj().Name() {
				return r
			}
		}
	case *types.Pointer:
		return types.NewPointer(f.subst(u.Elem()))
	case *types.Slice:
		return types.NewSlice(f.subst(u.Elem()))
	case *types.Map:
		return types.NewMap(f.subst(u.Key()), f.subst(u.Elem()))
	}
	return t
}

func (f *Frame) sortOf(t types.Type) string { return f.vc.sortOf(f.subst(t)) }

// safety obligation (skipped in spec code)
func (f *Frame) safe(st *State, cond Term, what string, pos token.Pos) {
	if f.spec || f.inOld {
		return
	}
	g := cond
	if f.guard.S != "" && f.guard.S != "true" {
		g = Imp(f.guard, cond)
	}
	f.vc.callN["safety"]++
	f.vc.oblige(st, fmt.Sprintf("safety.%s#%d", what, f.vc.callN["safety"]), "safety", g, pos, what)
}

func (f *Frame) constTerm(e ast.Expr) (Term, bool) {
	tv, ok := f.info().Types[e]
	if !ok || tv.Value == nil {
		return Term{}, false
	}
	switch tv.Value.Kind() {
	case constant.Bool:
		return BoolLit(constant.BoolVal(tv.Value)), true
	case constant.String:
		return StrLit(constant.StringVal(tv.Value)), true
	case constant.Int:
		if n, ok := constant.Int64Val(tv.Value); ok {
			return IntLit(n), true
		}
		// big constants (math.MaxUint64 ...)
		return Term{tv.Value.ExactString(), SInt}, true
	}
	return Term{}, false
}

// convert adapts a value of static type from to static type to (interface boxing).
func (f *Frame) convert(v Term, from, to types.Type) Term {
	if from == nil || to == nil {
		return v
	}
	from, to = f.subst(from), f.subst(to)
	_, toIface := to.Underlying().(*types.Interface)
	_, fromIface := from.Underlying().(*types.Interface)
	if _, isTP := to.(*types.TypeParam); isTP {
		toIface = false
	}
	if toIface && !fromIface {
		if b, ok := from.(*types.Basic); ok && b.Kind() == types.UntypedNil {
			return NilIface()
		}
		if v.Sort != SInt {
			f.vc.fail(token.NoPos, "boxing a non-reference value of type %s into an interface is not supported", from)
		}
		return MkIface(f.vc.tagOf(from), v)
	}
	return v
}

func (f *Frame) lookupVar(st *State, obj types.Object, pos token.Pos) Term {
	if t, ok := f.bound[obj]; ok {
		return t
	}
	if t, ok := st.env[envKey{obj, ""}]; ok {
		return t
	}
	if f.specEnv != nil {
		if t, ok := f.specEnv[envKey{obj, ""}]; ok {
			return t
		}
	}
	if v, ok := obj.(*types.Var); ok && v.Pkg() != nil && v.Parent() == v.Pkg().Scope() {
		key := "G:" + v.Pkg().Name() + "." + v.Name()
		return f.typed(st, f.vc.heapGet(st, key, f.sortOf(v.Type())), v.Type())
	}
	f.vc.fail(pos, "variable %s not in scope of the symbolic state", obj.Name())
	return Term{}
}

func (f *Frame) expr(st *State, e ast.Expr) Term {
	if t, ok := f.constTerm(e); ok {
		return t
	}
	vc := f.vc
	switch e := e.(type) {
	case *ast.ParenExpr:
		return f.expr(st, e.X)
	case *ast.Ident:
		if e.Name == "nil" {
			if tv, ok := f.info().Types[e]; ok {
				if b, ok := tv.Type.(*types.Basic); !ok || b.Kind() != types.UntypedNil {
					return vc.zero(f.subst(tv.Type))
				}
			}
			return IntLit(0)
		}
		obj := f.info().Uses[e]
		if obj == nil {
			obj = f.info().Defs[e]
		}
		if obj == nil {
			vc.fail(e.Pos(), "unresolved identifier %s", e.Name)
		}
		if fn, isFn := obj.(*types.Func); isFn {
			return f.namedFuncValue(st, fn)
		}
		if _, isGhostMap := f.ghostMapVar(e); isGhostMap {
			vc.fail(e.Pos(), "ghost map %s may only be indexed", e.Name)
		}
		return f.lookupVar(st, obj, e.Pos())
	case *ast.BasicLit:
		vc.fail(e.Pos(), "literal %s without constant value", e.Value)
	case *ast.UnaryExpr:
		switch e.Op {
		case token.NOT:
			return Not(f.expr(st, e.X))
		case token.SUB:
			return app(SInt, "-", f.expr(st, e.X))
		case token.ADD:
			return f.expr(st, e.X)
		case token.AND:
			if cl, ok := e.X.(*ast.CompositeLit); ok {
				return f.allocStruct(st, cl)
			}
			if r, ok := f.opaqueVarAddr(st, e.X); ok {
				return r
			}
			vc.fail(e.Pos(), "address-of is only supported on composite literals and on local variables of external struct types")
		}
		vc.fail(e.Pos(), "unsupported unary operator %s", e.Op)
	case *ast.BinaryExpr:
		return f.binary(st, e)
	case *ast.SelectorExpr:
		if obj, ok := f.info().Uses[e.Sel]; ok {
			if _, isSel := f.info().Selections[e]; !isSel { // qualified identifier
				switch o := obj.(type) {
				case *types.Var:
					key := "G:" + o.Pkg().Name() + "." + o.Name()
					return vc.heapGet(st, key, f.sortOf(o.Type()))
				case *types.Func:
					return f.namedFuncValue(st, o)
				}
			}
		}
		if sel, ok := f.info().Selections[e]; ok && sel.Kind() == types.FieldVal && isStructValue(f.typeOf(e.X)) && !f.heapStructPath(e.X) {
			// field of a struct VALUE (local, slice element, call result ...): select from the record
			v := f.expr(st, e.X)
			curT := f.typeOf(e.X)
			for _, ix := range sel.Index() {
				stt, isSt := curT.Underlying().(*types.Struct)
				if !isSt {
					vc.fail(e.Pos(), "field path through a pointer inside a struct value is not supported")
				}
				fld := stt.Field(ix)
				fs := SUnit
				if !isEmptyStruct(fld.Type()) {
					fs = f.sortOf(fld.Type())
				}
				v = app(fs, structFieldSel(v.Sort, fld.Name()), v)
				curT = f.subst(fld.Type())
			}
			return v
		}
		loc := f.loc(st, e)
		return f.load(st, loc, e.Pos())
	case *ast.StarExpr:
		vc.fail(e.Pos(), "explicit pointer dereference is not supported")
	case *ast.IndexExpr:
		xt := f.typeOf(e.X).Underlying()
		switch xt := xt.(type) {
		case *types.Map:
			if gv, ok := f.ghostMapVar(e.X); ok {
				k := f.convert(f.expr(st, e.Index), f.typeOf(e.Index), xt.Key())
				return Select(f.ghostMapArr(st, gv), k)
			}
			m := f.expr(st, e.X)
			k := f.convert(f.expr(st, e.Index), f.typeOf(e.Index), xt.Key())
			_, vs := vc.mapSorts(xt)
			return f.typed(st, vc.mapRead(st, m, k, vs), xt.Elem())
		case *types.Slice, *types.Array:
			s := f.expr(st, e.X)
			i := f.expr(st, e.Index)
			f.safe(st, And(app(SBool, "<=", IntLit(0), i), app(SBool, "<", i, SLen(s))), "index", e.Pos())
			var et types.Type
			if sl, ok := xt.(*types.Slice); ok {
				et = sl.Elem()
			} else {
				et = xt.(*types.Array).Elem()
			}
			if f.spec && !isSliceSort(sliceElemSort(s.Sort)) {
				// a specification reading s[i]: the element is a well-formed value (nil or a live object) provided
				// the index is in range - stated as a guarded fact because specs may index out of range
				v := Select(SArr(s), i)
				if !f.inOld && len(f.bound) == 0 && vc.quantDepth == 0 {
					for _, fact := range f.typeFacts(st, v, et) {
						if !strings.HasPrefix(fact.S, "(forall") {
							vc.assume(st, Imp(And(app(SBool, "<=", IntLit(0), i), app(SBool, "<", i, SLen(s))), fact))
						}
					}
				}
				return v
			}
			return f.typed(st, Select(SArr(s), i), et)
		case *types.Basic: // string indexing: byte as Int code
			s := f.expr(st, e.X)
			i := f.expr(st, e.Index)
			f.safe(st, And(app(SBool, "<=", IntLit(0), i), app(SBool, "<", i, app(SInt, "str.len", s))), "index", e.Pos())
			return app(SInt, "str.to_code", app(SString, "str.at", s, i))
		case *types.Signature:
			vc.fail(e.Pos(), "generic function value")
		}
		vc.fail(e.Pos(), "unsupported index expression on %s", xt)
	case *ast.SliceExpr:
		return f.sliceExpr(st, e)
	case *ast.CallExpr:
		rs := f.call(st, e)
		if len(rs) != 1 {
			vc.fail(e.Pos(), "call used as a single value returns %d values", len(rs))
		}
		return rs[0]
	case *ast.CompositeLit:
		return f.compositeLit(st, e)
	case *ast.TypeAssertExpr:
		x := f.expr(st, e.X)
		t := f.typeOf(e.Type)
		if _, isIface := t.Underlying().(*types.Interface); isIface {
			f.safe(st, Not(Eq(x, NilIface())), "typeassert", e.Pos())
			return x
		}
		f.safe(st, Eq(ITag(x), IntLit(int64(vc.tagOf(t)))), "typeassert", e.Pos())
		return IRef(x)
	case *ast.FuncLit:
		vc.fail(e.Pos(), "function literal as a value is not supported here")
	}
	vc.fail(e.Pos(), "unsupported expression %T", e)
	return Term{}
}

func (f *Frame) binary(st *State, e *ast.BinaryExpr) Term {
	vc := f.vc
	switch e.Op {
	case token.LAND, token.LOR:
		a := f.expr(st, e.X)
		saved := f.guard
		g := a
		if e.Op == token.LOR {
			g = Not(a)
		}
		if saved.S == "" {
			f.guard = g
		} else {
			f.guard = And(saved, g)
		}
		b := f.expr(st, e.Y)
		f.guard = saved
		if e.Op == token.LAND {
			return And(a, b)
		}
		return Or(a, b)
	}
	xt, yt := f.typeOf(e.X), f.typeOf(e.Y)
	isNil := func(x ast.Expr) bool {
		id, ok := ast.Unparen(x).(*ast.Ident)
		if !ok || id.Name != "nil" {
			return false
		}
		_, isNilObj := f.info().Uses[id].(*types.Nil)
		return isNilObj
	}
	var a, b Term
	switch {
	case isNil(e.Y):
		a = f.expr(st, e.X)
		b = f.nilOf(xt, a, e.Pos())
	case isNil(e.X):
		b = f.expr(st, e.Y)
		a = f.nilOf(yt, b, e.Pos())
	default:
		a = f.expr(st, e.X)
		b = f.expr(st, e.Y)
		// mixed interface / concrete comparison
		if a.Sort == SIface && b.Sort != SIface {
			b = f.convert(b, yt, xt)
		} else if b.Sort == SIface && a.Sort != SIface {
			a = f.convert(a, xt, yt)
		}
	}
	if a.S == "$emptyslice" || b.S == "$emptyslice" {
		other := a
		if a.S == "$emptyslice" {
			other = b
		}
		isEmpty := Eq(SLen(other), IntLit(0))
		if e.Op == token.EQL {
			return isEmpty
		}
		return Not(isEmpty)
	}
	switch e.Op {
	case token.EQL:
		if isSliceSort(a.Sort) {
			vc.fail(e.Pos(), "slice comparison")
		}
		return Eq(a, b)
	case token.NEQ:
		return Not(Eq(a, b))
	case token.LSS, token.LEQ, token.GTR, token.GEQ:
		op := map[token.Token]string{token.LSS: "<", token.LEQ: "<=", token.GTR: ">", token.GEQ: ">="}[e.Op]
		if a.Sort == SString {
			sop := map[token.Token]string{token.LSS: "str.<", token.LEQ: "str.<="}[e.Op]
			if sop == "" {
				if e.Op == token.GTR {
					return app(SBool, "str.<", b, a)
				}
				return app(SBool, "str.<=", b, a)
			}
			return app(SBool, sop, a, b)
		}
		return app(SBool, op, a, b)
	case token.ADD:
		if a.Sort == SString {
			return app(SString, "str.++", a, b)
		}
		return app(SInt, "+", a, b)
	case token.SUB:
		return app(SInt, "-", a, b)
	case token.MUL:
		return app(SInt, "*", a, b)
	case token.QUO:
		f.safe(st, Not(Eq(b, IntLit(0))), "div", e.Pos())
		// Go truncates toward zero; SMT div floors. Only non-negative operands are given meaning.
		return app(SInt, "div", a, b)
	case token.REM:
		f.safe(st, Not(Eq(b, IntLit(0))), "div", e.Pos())
		return app(SInt, "mod", a, b)
	case token.OR:
		// bit-or is only used on small constant flags (ast.SEND|ast.RECV): folded by the constant evaluator
		vc.fail(e.Pos(), "bitwise | on non-constants")
	}
	vc.fail(e.Pos(), "unsupported binary operator %s", e.Op)
	return Term{}
}

func (f *Frame) nilOf(t types.Type, like Term, pos token.Pos) Term {
	switch like.Sort {
	case SInt:
		return IntLit(0)
	case SIface:
		return NilIface()
	}
	if isSliceSort(like.Sort) {
		// nil and empty slices are identified: `s == nil` is read as `len(s) == 0`. Exact wherever every non-nil
		// value reaching the comparison is non-empty (stated as an assumption in the evidence).
		f.vc.dropped["slice == nil read as len == 0 at "+f.vc.posStr(pos)]++
		return Term{"$emptyslice", like.Sort}
	}
	f.vc.fail(pos, "nil comparison at sort %s", like.Sort)
	return Term{}
}

// ------------------------------------------------------------ locations

type locKind int

const (
	locVar locKind = iota
	locField
	locGlobal
	locSliceElem
	locMapElem
	locGhostMapElem
)

// ghostMapVar: a package-level map variable declared in a contract file. Such maps are only ever
// indexed (checked here syntactically: any other use is rejected), so they are modelled as one total
// array each instead of a reference into the shared map heap.
func (f *Frame) ghostMapVar(e ast.Expr) (*types.Var, bool) {
	id, ok := ast.Unparen(e).(*ast.Ident)
	if !ok {
		return nil, false
	}
	v, ok := f.info().Uses[id].(*types.Var)
	if !ok || v.Pkg() == nil || v.Parent() != v.Pkg().Scope() {
		return nil, false
	}
	if _, isMap := v.Type().Underlying().(*types.Map); !isMap {
		return nil, false
	}
	if !f.vc.prog.isSpecVar(v) {
		return nil, false
	}
	return v, true
}

func ghostMapKey(v *types.Var) string { return "GM:" + v.Pkg().Name() + "." + v.Name() }

func (f *Frame) ghostMapArr(st *State, v *types.Var) Term {
	mt := v.Type().Underlying().(*types.Map)
	ks, vs := f.vc.mapSorts(mt)
	return f.vc.heapGet(st, ghostMapKey(v), ArraySort(ks, vs))
}

type Loc struct {
	kind   locKind
	obj    types.Object
	path   string // struct-valued local: field path
	ref    Term   // locField: object; locMapElem: map ref
	key    string // heap key
	idx    Term
	parent *Loc
	typ    types.Type
}

func structName(t types.Type) string {
	t = types.Unalias(t)
	if n, ok := t.(*types.Named); ok {
		if n.Obj().Pkg() != nil {
			return n.Obj().Pkg().Name() + "." + n.Obj().Name()
		}
		return n.Obj().Name()
	}
	return mangle(t.String())
}

func (f *Frame) loc(st *State, e ast.Expr) Loc {
	vc := f.vc
	switch e := e.(type) {
	case *ast.ParenExpr:
		return f.loc(st, e.X)
	case *ast.Ident:
		obj := f.info().Uses[e]
		if obj == nil {
			obj = f.info().Defs[e]
		}
		if obj == nil {
			vc.fail(e.Pos(), "unresolved identifier %s", e.Name)
		}
		if v, ok := obj.(*types.Var); ok && v.Pkg() != nil && v.Parent() == v.Pkg().Scope() {
			return Loc{kind: locGlobal, key: "G:" + v.Pkg().Name() + "." + v.Name(), typ: v.Type()}
		}
		return Loc{kind: locVar, obj: obj, typ: f.subst(obj.Type())}
	case *ast.SelectorExpr:
		sel, ok := f.info().Selections[e]
		if !ok {
			if v, ok := f.info().Uses[e.Sel].(*types.Var); ok {
				return Loc{kind: locGlobal, key: "G:" + v.Pkg().Name() + "." + v.Name(), typ: v.Type()}
			}
			vc.fail(e.Pos(), "unsupported selector")
		}
		if sel.Kind() != types.FieldVal {
			vc.fail(e.Pos(), "method value")
		}
		// base
		xt := f.typeOf(e.X)
		var cur Loc
		var curVal Term
		haveVal := false
		if _, isPtr := xt.Underlying().(*types.Pointer); isPtr {
			curVal = f.expr(st, e.X)
			haveVal = true
		} else {
			cur = f.loc(st, e.X)
		}
		curT := xt
		for _, ix := range sel.Index() {
			var stt *types.Struct
			if pt, ok := curT.Underlying().(*types.Pointer); ok {
				if !haveVal {
					curVal = f.load(st, cur, e.Pos())
				}
				f.safe(st, Not(Eq(curVal, IntLit(0))), "nilderef", e.Pos())
				stt = pt.Elem().Underlying().(*types.Struct)
				fld := stt.Field(ix)
				cur = Loc{kind: locField, ref: curVal, key: fieldKey(structName(pt.Elem()), fld.Name()), typ: f.subst(fld.Type())}
				haveVal = false
				curT = cur.typ
				continue
			}
			stt = curT.Underlying().(*types.Struct)
			fld := stt.Field(ix)
			switch cur.kind {
			case locVar:
				p := fld.Name()
				if cur.path != "" {
					p = cur.path + "." + p
				}
				cur = Loc{kind: locVar, obj: cur.obj, path: p, typ: f.subst(fld.Type())}
			case locField:
				cur = Loc{kind: locField, ref: cur.ref, key: cur.key + "." + fld.Name(), typ: f.subst(fld.Type())}
			case locGlobal:
				cur = Loc{kind: locGlobal, key: cur.key + "." + fld.Name(), typ: f.subst(fld.Type())}
			default:
				vc.fail(e.Pos(), "field of a struct stored in a slice/map element is not supported")
			}
			curT = cur.typ
		}
		return cur
	case *ast.IndexExpr:
		xt := f.typeOf(e.X).Underlying()
		switch xt := xt.(type) {
		case *types.Map:
			if gv, ok := f.ghostMapVar(e.X); ok {
				k := f.convert(f.expr(st, e.Index), f.typeOf(e.Index), xt.Key())
				return Loc{kind: locGhostMapElem, obj: gv, idx: k, typ: f.subst(xt.Elem())}
			}
			m := f.expr(st, e.X)
			k := f.convert(f.expr(st, e.Index), f.typeOf(e.Index), xt.Key())
			return Loc{kind: locMapElem, ref: m, idx: k, typ: f.subst(xt.Elem())}
		case *types.Slice, *types.Array:
			p := f.loc(st, e.X)
			i := f.expr(st, e.Index)
			var et types.Type
			if s, ok := xt.(*types.Slice); ok {
				et = s.Elem()
			} else {
				et = xt.(*types.Array).Elem()
			}
			return Loc{kind: locSliceElem, parent: &p, idx: i, typ: f.subst(et)}
		}
	}
	vc.fail(e.Pos(), "expression %T is not an assignable location kvc understands", e)
	return Loc{}
}

func (f *Frame) load(st *State, l Loc, pos token.Pos) Term {
	vc := f.vc
	if isStructValue(l.typ) && l.kind != locVar && l.kind != locSliceElem && l.kind != locMapElem {
		vc.fail(pos, "struct value of type %s stored inside a heap object is read as a whole", l.typ)
	}
	switch l.kind {
	case locVar:
		whole := f.lookupVar(st, l.obj, pos)
		if l.path == "" {
			return whole
		}
		// field path inside a struct-valued local
		v := whole
		curT := f.subst(l.obj.Type())
		for _, name := range strings.Split(l.path, ".") {
			stt := curT.Underlying().(*types.Struct)
			for i := 0; i < stt.NumFields(); i++ {
				if stt.Field(i).Name() == name {
					fs := SUnit
					if !isEmptyStruct(stt.Field(i).Type()) {
						fs = f.sortOf(stt.Field(i).Type())
					}
					if isOpaqueStruct(curT) {
						// a struct declared outside the repository is represented by its identity alone: a field of it is an
						// uninterpreted function of that identity
						v = vc.ufApp("opq_"+mangle(structName(curT))+"_"+mangle(name), fs, v)
					} else {
						v = app(fs, structFieldSel(v.Sort, name), v)
					}
					curT = f.subst(stt.Field(i).Type())
					break
				}
			}
		}
		return v
	case locGlobal:
		return vc.heapGet(st, l.key, f.sortOf(l.typ))
	case locField:
		srt := f.sortOf(l.typ)
		h := vc.heapGet(st, l.key, ArraySort(SInt, srt))
		v := Select(h, l.ref)
		if vc.quantDepth > 0 && !f.inOld {
			f.heapWellFormed(st, h, l.typ)
		}
		return f.typed(st, v, l.typ)
	case locSliceElem:
		s := f.load(st, *l.parent, pos)
		f.safe(st, And(app(SBool, "<=", IntLit(0), l.idx), app(SBool, "<", l.idx, SLen(s))), "index", pos)
		return Select(SArr(s), l.idx)
	case locMapElem:
		srt := SUnit
		if !(isEmptyStruct(l.typ)) {
			srt = f.sortOf(l.typ)
		}
		return vc.mapRead(st, l.ref, l.idx, srt)
	case locGhostMapElem:
		return Select(f.ghostMapArr(st, l.obj.(*types.Var)), l.idx)
	}
	panic("load")
}

// heapWellFormed: Go's type safety as a fact about one version h of a reference-valued field: every
// allocated object's field holds nil or an allocated object of the field's type (for slices: each
// element). Emitted once per heap version, only when a specification reads the field under a
// quantifier (where per-read facts cannot be attached).
func (f *Frame) heapWellFormed(st *State, h Term, ft types.Type) {
	vc := f.vc
	if strings.Contains(h.S, "?") {
		return
	}
	alloc := vc.alloc(st)
	if strings.Contains(alloc.S, "?") {
		return
	}
	key := "wf|" + h.S + "|" + alloc.S + "|" + st.pc.S
	if vc.asserted[key] {
		return
	}
	r := Term{"r!", SInt}
	guard := And(app(SBool, "<", IntLit(0), r), app(SBool, "<", r, alloc))
	v := Select(h, r)
	var body Term
	var pat Term
	wf := func(e Term, t types.Type) Term {
		switch t.Underlying().(type) {
		case *types.Pointer, *types.Map:
			return And(app(SBool, "<=", IntLit(0), e), app(SBool, "<", e, alloc), Or(Eq(e, IntLit(0)), vc.hasType(e, types.Unalias(t))))
		case *types.Interface:
			return And(app(SBool, "<=", IntLit(0), IRef(e)), app(SBool, "<", IRef(e), alloc), Or(Eq(IRef(e), IntLit(0)), Eq(app(SInt, "typeof", IRef(e)), ITag(e))))
		}
		return True
	}
	ft = f.subst(ft)
	switch u := ft.Underlying().(type) {
	case *types.Pointer, *types.Map, *types.Interface:
		body, pat = wf(v, ft), v
	case *types.Slice:
		i := Term{"i!", SInt}
		e := Select(SArr(v), i)
		inner := wf(e, u.Elem())
		if inner.S == "true" {
			return
		}
		if vc.asserted == nil {
			vc.asserted = map[string]bool{}
		}
		vc.asserted[key] = true
		saved := vc.quantDepth
		vc.quantDepth = 0
		// unguarded: the fact speaks about the pair (h, alloc) only; on paths where these terms are not the
		// current heap they denote unconstrained values for which the fact is satisfiable, so no path's context
		// becomes inconsistent, and on paths that share them it is true
		if !strings.Contains(st.pc.S, "?") {
			vc.assume(st, Forall([]Term{r, i}, Imp(guard, inner), e))
		}
		vc.quantDepth = saved
		return
	default:
		return
	}
	if vc.asserted == nil {
		vc.asserted = map[string]bool{}
	}
	vc.asserted[key] = true
	saved := vc.quantDepth
	vc.quantDepth = 0
	if !strings.Contains(st.pc.S, "?") {
		vc.assume(st, Forall([]Term{r}, Imp(guard, body), pat))
	}
	vc.quantDepth = saved
}

func isEmptyStruct(t types.Type) bool {
	s, ok := t.Underlying().(*types.Struct)
	return ok && s.NumFields() == 0
}

// typed adds the type invariant of a value read from the heap as a fact and returns it.
func (f *Frame) typed(st *State, v Term, t types.Type) Term {
	if f.inOld || len(f.bound) > 0 {
		return v // facts about terms with bound variables / old state are not emitted
	}
	for _, fact := range f.typeFacts(st, v, t) {
		if f.spec && strings.HasPrefix(fact.S, "(forall") {
			continue // specification reads get the cheap facts only (well-formed heap: references are nil or allocated)
		}
		f.vc.assume(st, fact)
	}
	return v
}

func (f *Frame) typeFacts(st *State, v Term, t types.Type) []Term {
	switch {
	case isSliceSort(v.Sort):
		if a, ok := f.subst(t).Underlying().(*types.Array); ok {
			return []Term{Eq(SLen(v), IntLit(a.Len()))}
		}
		// lengths are non-negative and far below math.MaxInt (a slice of that length cannot exist)
		facts := []Term{app(SBool, ">=", SLen(v), IntLit(0)), app(SBool, "<", SLen(v), Term{"4611686018427387904", SInt})}
		if es := sliceElemSort(v.Sort); isSliceSort(es) && f.vc.quantDepth == 0 {
			// the same for the elements of a slice of slices
			i := Term{"i!", SInt}
			e := Select(SArr(v), i)
			facts = append(facts, Forall([]Term{i}, And(app(SBool, ">=", SLen(e), IntLit(0)), app(SBool, "<", SLen(e), Term{"4611686018427387904", SInt})), SLen(e)))
		}
		if f.vc.quantDepth == 0 {
			// elements that are references (or interfaces holding references) are nil or allocated
			var et types.Type
			switch u := f.subst(t).Underlying().(type) {
			case *types.Slice:
				et = u.Elem()
			case *types.Array:
				et = u.Elem()
			}
			if et != nil {
				i := Term{"i!", SInt}
				e := Select(SArr(v), i)
				switch et.Underlying().(type) {
				case *types.Pointer, *types.Map:
					facts = append(facts, Forall([]Term{i}, And(f.vc.isAllocOrNil(st, e), Or(Eq(e, IntLit(0)), f.vc.hasType(e, types.Unalias(f.subst(et))))), e))
				case *types.Interface:
					facts = append(facts, Forall([]Term{i}, And(f.vc.isAllocOrNil(st, IRef(e)), Or(Eq(IRef(e), IntLit(0)), Eq(app(SInt, "typeof", IRef(e)), ITag(e)))), e))
				}
			}
		}
		return facts
	case v.Sort == SIface:
		// an interface value holds a reference whose dynamic type is its tag
		return []Term{f.vc.isAllocOrNil(st, IRef(v)), Or(Eq(IRef(v), IntLit(0)), Eq(app(SInt, "typeof", IRef(v)), ITag(v)))}
	case v.Sort == SInt:
		switch u := f.subst(t).Underlying().(type) {
		case *types.Pointer, *types.Map:
			return []Term{f.vc.isAllocOrNil(st, v), Or(Eq(v, IntLit(0)), f.vc.hasType(v, types.Unalias(f.subst(t))))}
		case *types.Basic:
			if u.Info()&types.IsUnsigned != 0 {
				return []Term{app(SBool, ">=", v, IntLit(0))}
			}
		}
	}
	return nil
}

func (f *Frame) store(st *State, l Loc, v Term, pos token.Pos) {
	vc := f.vc
	switch l.kind {
	case locVar:
		if l.path == "" {
			st.env[envKey{l.obj, ""}] = vc.define(l.obj.Name(), v)
			break
		}
		whole := f.lookupVar(st, l.obj, pos)
		st.env[envKey{l.obj, ""}] = vc.define(l.obj.Name(), f.structUpdate(whole, f.subst(l.obj.Type()), strings.Split(l.path, "."), v))
	case locGlobal:
		vc.heapSet(st, l.key, vc.define("g", v))
	case locField:
		h := vc.heapGet(st, l.key, ArraySort(SInt, v.Sort))
		vc.heapSet(st, l.key, vc.define("h", Store(h, l.ref, v)))
	case locSliceElem:
		// slices have value semantics here: a write through a slice PARAMETER would be invisible to the caller
		// (in-out slice parameters are not implemented) - refuse instead of proving something about a copy
		if l.parent.kind == locVar && vc.isParamVar(l.parent.obj) {
			vc.fail(pos, "element write through slice parameter %s: in-out slice parameters are outside the subset", l.parent.obj.Name())
		}
		s := f.load(st, *l.parent, pos)
		f.safe(st, And(app(SBool, "<=", IntLit(0), l.idx), app(SBool, "<", l.idx, SLen(s))), "index", pos)
		f.store(st, *l.parent, MkSlice(Store(SArr(s), l.idx, v), SLen(s)), pos)
	case locMapElem:
		f.safe(st, Not(Eq(l.ref, IntLit(0))), "nilmapwrite", pos)
		vc.mapWrite(st, l.ref, l.idx, v)
	case locGhostMapElem:
		gv := l.obj.(*types.Var)
		vc.heapSet(st, ghostMapKey(gv), vc.define("gm", Store(f.ghostMapArr(st, gv), l.idx, v)))
	}
}

// opaqueVarAddr: the address of a local variable of an opaque external struct type (bytes.Buffer,
// sync.Mutex ...): a reference allocated on first use and remembered per variable. kvc never looks inside
// such a struct, so the variable is represented by its identity alone.
func (f *Frame) opaqueVarAddr(st *State, e ast.Expr) (Term, bool) {
	id, ok := ast.Unparen(e).(*ast.Ident)
	if !ok {
		return Term{}, false
	}
	v, ok := f.info().Uses[id].(*types.Var)
	if !ok || v.IsField() || (v.Pkg() != nil && v.Parent() == v.Pkg().Scope()) || !isOpaqueStruct(v.Type()) {
		return Term{}, false
	}
	key := envKey{v, "&"}
	if r, ok := st.env[key]; ok {
		return r, true
	}
	r := f.vc.newRefT(st, "addr_"+mangle(id.Name), types.NewPointer(v.Type()))
	st.env[key] = r
	return r, true
}

// heapStructPath: e denotes a struct value embedded in a heap object or global (x.f with x a pointer, or a
// further field of such a value); those are flattened into per-field heap arrays rather than read as records.
func (f *Frame) heapStructPath(e ast.Expr) bool {
	switch x := ast.Unparen(e).(type) {
	case *ast.SelectorExpr:
		sel, ok := f.info().Selections[x]
		if !ok {
			_, isVar := f.info().Uses[x.Sel].(*types.Var)
			return isVar // qualified global
		}
		if sel.Kind() != types.FieldVal {
			return false
		}
		if _, isPtr := f.typeOf(x.X).Underlying().(*types.Pointer); isPtr {
			return true
		}
		return f.heapStructPath(x.X)
	case *ast.Ident:
		if v, ok := f.info().Uses[x].(*types.Var); ok && v.Pkg() != nil && v.Parent() == v.Pkg().Scope() {
			return true
		}
	}
	return false
}

// structUpdate: functional update of the field at path inside a record value.
func (f *Frame) structUpdate(whole Term, t types.Type, path []string, v Term) Term {
	stt := t.Underlying().(*types.Struct)
	var args []Term
	for i := 0; i < stt.NumFields(); i++ {
		fld := stt.Field(i)
		fs := SUnit
		if !isEmptyStruct(fld.Type()) {
			fs = f.sortOf(fld.Type())
		}
		cur := app(fs, structFieldSel(whole.Sort, fld.Name()), whole)
		if fld.Name() == path[0] {
			if len(path) == 1 {
				cur = v
			} else {
				cur = f.structUpdate(cur, f.subst(fld.Type()), path[1:], v)
			}
		}
		args = append(args, cur)
	}
	return app(whole.Sort, "mk_"+whole.Sort, args...)
}

// ------------------------------------------------------------ composite values

func (f *Frame) allocStruct(st *State, cl *ast.CompositeLit) Term {
	vc := f.vc
	t := f.typeOf(cl)
	if pt, isPtr := t.Underlying().(*types.Pointer); isPtr {
		t = pt.Elem() // elided &T{...} element of a []*T literal
	}
	stt, ok := t.Underlying().(*types.Struct)
	if !ok {
		vc.fail(cl.Pos(), "&composite literal of non-struct type")
	}
	// evaluate field values first (they may allocate)
	vals := make([]Term, stt.NumFields())
	set := make([]bool, stt.NumFields())
	for i, el := range cl.Elts {
		if kv, ok := el.(*ast.KeyValueExpr); ok {
			name := kv.Key.(*ast.Ident).Name
			for j := 0; j < stt.NumFields(); j++ {
				if stt.Field(j).Name() == name {
					vals[j] = f.convert(f.expr(st, kv.Value), f.typeOf(kv.Value), stt.Field(j).Type())
					set[j] = true
				}
			}
		} else {
			vals[i] = f.convert(f.expr(st, el), f.typeOf(el), stt.Field(i).Type())
			set[i] = true
		}
	}
	r := vc.newRefT(st, "new_"+structName(t), types.NewPointer(t))
	f.initStructFields(st, r, structName(t), stt, vals, set)
	return r
}

func (f *Frame) initStructFields(st *State, r Term, prefix string, stt *types.Struct, vals []Term, set []bool) {
	vc := f.vc
	for j := 0; j < stt.NumFields(); j++ {
		fld := stt.Field(j)
		ft := f.subst(fld.Type())
		if isStructValue(ft) {
			// a struct value embedded in a heap object is flattened into per-field heap arrays; an explicit
			// value (an SMT record) is taken apart field by field
			inner := ft.Underlying().(*types.Struct)
			ivals := make([]Term, inner.NumFields())
			iset := make([]bool, inner.NumFields())
			if set != nil && set[j] {
				rec := vals[j]
				for k := 0; k < inner.NumFields(); k++ {
					kt := f.subst(inner.Field(k).Type())
					if isEmptyStruct(kt) {
						continue
					}
					ivals[k] = app(f.sortOf(kt), structFieldSel(rec.Sort, inner.Field(k).Name()), rec)
					iset[k] = true
				}
			}
			f.initStructFields(st, r, prefix+"."+fld.Name(), inner, ivals, iset)
			continue
		}
		var v Term
		if set != nil && set[j] {
			v = vals[j]
		} else if isEmptyStruct(ft) {
			continue
		} else {
			v = vc.zero(ft)
		}
		key := fieldKey(prefix, fld.Name())
		h := vc.heapGet(st, key, ArraySort(SInt, v.Sort))
		vc.heapSet(st, key, vc.define("h", Store(h, r, v)))
	}
}

func (f *Frame) compositeLit(st *State, cl *ast.CompositeLit) Term {
	vc := f.vc
	t := f.typeOf(cl)
	switch u := t.Underlying().(type) {
	case *types.Slice, *types.Array:
		var et types.Type
		if s, ok := u.(*types.Slice); ok {
			et = s.Elem()
		} else {
			et = u.(*types.Array).Elem()
		}
		es := f.sortOf(et)
		arr := ConstArray(SInt, es, vc.zeroSort(es))
		n := 0
		for _, el := range cl.Elts {
			if _, ok := el.(*ast.KeyValueExpr); ok {
				vc.fail(el.Pos(), "keyed slice literal")
			}
			var v Term
			if inner, ok := el.(*ast.CompositeLit); ok && inner.Type == nil {
				// elided &T{} / T{} element
				if _, isPtr := et.Underlying().(*types.Pointer); isPtr {
					v = f.allocStruct(st, inner)
				} else {
					v = f.compositeLit(st, inner)
				}
			} else {
				v = f.convert(f.expr(st, el), f.typeOf(el), et)
			}
			arr = Store(arr, IntLit(int64(n)), v)
			n++
		}
		return vc.define("lit", MkSlice(arr, IntLit(int64(n))))
	case *types.Map:
		ks, vs := vc.mapSorts(u)
		m := vc.newMapT(st, ks, vs, t)
		for _, el := range cl.Elts {
			kv := el.(*ast.KeyValueExpr)
			k := f.convert(f.expr(st, kv.Key), f.typeOf(kv.Key), u.Key())
			var v Term
			if isEmptyStruct(u.Elem()) {
				v = True
			} else {
				v = f.convert(f.expr(st, kv.Value), f.typeOf(kv.Value), u.Elem())
			}
			vc.mapWrite(st, m, k, v)
		}
		return m
	case *types.Struct:
		if u.NumFields() == 0 {
			return True
		}
		srt := f.sortOf(t)
		args := make([]Term, u.NumFields())
		for j := 0; j < u.NumFields(); j++ {
			ft := f.subst(u.Field(j).Type())
			if isEmptyStruct(ft) {
				args[j] = True
			} else {
				args[j] = vc.zero(ft)
			}
		}
		for i, el := range cl.Elts {
			j := i
			val := el
			if kv, ok := el.(*ast.KeyValueExpr); ok {
				name := kv.Key.(*ast.Ident).Name
				val = kv.Value
				for k := 0; k < u.NumFields(); k++ {
					if u.Field(k).Name() == name {
						j = k
					}
				}
			}
			args[j] = f.convert(f.rhs(st, val, u.Field(j).Type(), nil), f.typeOf(val), u.Field(j).Type())
		}
		return vc.define("rec", app(srt, "mk_"+srt, args...))
	}
	vc.fail(cl.Pos(), "composite literal of type %s used as a value", t)
	return Term{}
}

func (f *Frame) sliceExpr(st *State, e *ast.SliceExpr) Term {
	vc := f.vc
	x := f.expr(st, e.X)
	if x.Sort == SString {
		lo := IntLit(0)
		hi := app(SInt, "str.len", x)
		if e.Low != nil {
			lo = f.expr(st, e.Low)
		}
		if e.High != nil {
			hi = f.expr(st, e.High)
		}
		f.safe(st, And(app(SBool, "<=", IntLit(0), lo), app(SBool, "<=", lo, hi), app(SBool, "<=", hi, app(SInt, "str.len", x))), "slicebounds", e.Pos())
		return app(SString, "str.substr", x, lo, app(SInt, "-", hi, lo))
	}
	if !isSliceSort(x.Sort) {
		vc.fail(e.Pos(), "slice expression on %s", x.Sort)
	}
	lo := IntLit(0)
	hi := SLen(x)
	if e.Low != nil {
		lo = f.expr(st, e.Low)
	}
	if e.High != nil {
		hi = f.expr(st, e.High)
	}
	f.safe(st, And(app(SBool, "<=", IntLit(0), lo), app(SBool, "<=", lo, hi), app(SBool, "<=", hi, SLen(x))), "slicebounds", e.Pos())
	if lo.S == "0" {
		return vc.define("sl", MkSlice(SArr(x), hi))
	}
	es := sliceElemSort(x.Sort)
	arr := vc.fresh("slarr", ArraySort(SInt, es))
	i := Term{"i!", SInt}
	vc.assumeGlobal(Forall([]Term{i}, Eq(Select(arr, i), Select(SArr(x), app(SInt, "+", i, lo))), Select(arr, i)))
	return vc.define("sl", MkSlice(arr, app(SInt, "-", hi, lo)))
}

// appendTerm models append(s, xs...) / append(s, t...).
func (f *Frame) appendTerm(st *State, call *ast.CallExpr) Term {
	vc := f.vc
	s := f.expr(st, call.Args[0])
	st0 := f.typeOf(call.Args[0])
	et := st0.Underlying().(*types.Slice).Elem()
	if call.Ellipsis.IsValid() {
		t := f.expr(st, call.Args[1])
		if t.Sort == SString {
			vc.fail(call.Pos(), "append(bytes, string...)")
		}
		es := sliceElemSort(s.Sort)
		arr := vc.fresh("apparr", ArraySort(SInt, es))
		i := Term{"i!", SInt}
		n := SLen(s)
		vc.assumeGlobal(Forall([]Term{i}, Eq(Select(arr, i),
			Ite(app(SBool, "<", i, n), Select(SArr(s), i), Select(SArr(t), app(SInt, "-", i, n)))), Select(arr, i)))
		if !strings.HasPrefix(s.S, "(") {
			// redundant instances with triggers on the OLD slices (see the single-element case)
			vc.assumeGlobal(Forall([]Term{i}, Imp(And(app(SBool, "<=", IntLit(0), i), app(SBool, "<", i, n)),
				Eq(Select(arr, i), Select(SArr(s), i))), Select(SArr(s), i)))
		}
		if !strings.HasPrefix(t.S, "(") {
			vc.assumeGlobal(Forall([]Term{i}, Imp(And(app(SBool, "<=", IntLit(0), i), app(SBool, "<", i, SLen(t))),
				Eq(Select(arr, app(SInt, "+", n, i)), Select(SArr(t), i))), Select(SArr(t), i)))
		}
		return vc.define("app", MkSlice(arr, app(SInt, "+", n, SLen(t))))
	}
	arr := SArr(s)
	n := SLen(s)
	for k, a := range call.Args[1:] {
		v := f.convert(f.expr(st, a), f.typeOf(a), et)
		arr = Store(arr, app(SInt, "+", n, IntLit(int64(k))), v)
	}
	res := vc.define("app", MkSlice(arr, app(SInt, "+", n, IntLit(int64(len(call.Args)-1)))))
	if vc.quantDepth == 0 && res.S != s.S && strings.HasPrefix(s.S, "(") == false {
		// (redundant, follows from the array axioms) the old elements are still there: stated with a trigger on the
		// OLD slice so that facts about s[j] carry over to append(s, x)[j] under trigger-based instantiation
		i := Term{"i!", SInt}
		vc.assume(st, Forall([]Term{i}, Imp(And(app(SBool, "<=", IntLit(0), i), app(SBool, "<", i, n)),
			Eq(Select(SArr(res), i), Select(SArr(s), i))), Select(SArr(s), i)))
	}
	return res
}

// ------------------------------------------------------------ helpers

func (f *Frame) callee(call *ast.CallExpr) *types.Func {
	fn := typeutil.StaticCallee(f.info(), call)
	if fn != nil {
		return fn
	}
	if o := typeutil.Callee(f.info(), call); o != nil {
		if fn, ok := o.(*types.Func); ok {
			return fn
		}
	}
	return nil
}

func exprString(e ast.Expr) string {
	switch e := e.(type) {
	case *ast.Ident:
		return e.Name
	case *ast.SelectorExpr:
		return exprString(e.X) + "." + e.Sel.Name
	case *ast.ParenExpr:
		return exprString(e.X)
	case *ast.StarExpr:
		return "*" + exprString(e.X)
	case *ast.IndexExpr:
		return exprString(e.X) + "[" + exprString(e.Index) + "]"
	}
	return fmt.Sprintf("%T", e)
}

var _ = strings.TrimSpace

// isParamVar: obj is a parameter or receiver of some function or function literal of the loaded packages.
func (vc *VC) isParamVar(obj types.Object) bool {
	vc.prog.paramOnce.Do(func() {
		vc.prog.paramVars = map[types.Object]bool{}
		for _, pk := range vc.prog.Pkgs {
			if pk.TypesInfo == nil {
				continue
			}
			add := func(fl *ast.FieldList) {
				if fl == nil {
					return
				}
				for _, fd := range fl.List {
					for _, nm := range fd.Names {
						if o := pk.TypesInfo.Defs[nm]; o != nil {
							vc.prog.paramVars[o] = true
						}
					}
				}
			}
			for _, file := range pk.Syntax {
				ast.Inspect(file, func(n ast.Node) bool {
					switch n := n.(type) {
					case *ast.FuncDecl:
						add(n.Recv)
						add(n.Type.Params)
					case *ast.FuncLit:
						add(n.Type.Params)
					}
					return true
				})
			}
		}
	})
	return vc.prog.paramVars[obj]
}

package main

import (
	"fmt"
	"go/ast"
	"go/token"
	"go/types"
	"strings"
)

type okind int

const (
	oFall okind = iota
	oBrk
	oCont
	oRet
)

type Outcome struct {
	kind  okind
	label string
	st    *State
	vals  []Term
}

func (f *Frame) block(st *State, list []ast.Stmt) []Outcome {
	var outs []Outcome
	cur := st
	for i, s := range list {
		if cur == nil || cur.pc.S == "false" {
			return outs
		}
		f.ghostAt(cur, s, true)
		res := f.stmt(cur, s, "")
		var falls []*State
		for _, o := range res {
			if o.kind == oFall {
				falls = append(falls, o.st)
			} else {
				outs = append(outs, o)
			}
		}
		if f.split && len(falls) > 1 && f.vc.liveSplits+len(falls) <= 24 {
			// path splitting (//kvc:split): run the rest of the block once per incoming path instead of
			// merging them; the obligations of the different paths keep separate, much smaller contexts
			rest := list[i+1:]
			f.vc.liveSplits += len(falls) - 1
			for _, fs := range falls {
				f.ghostAt(fs, s, false)
				outs = append(outs, f.block(fs, rest)...)
			}
			return outs
		}
		cur = f.vc.merge(falls)
		if cur != nil {
			f.ghostAt(cur, s, false)
		}
	}
	if cur != nil && cur.pc.S != "false" {
		outs = append(outs, Outcome{kind: oFall, st: cur})
	}
	return outs
}

// ghostAt runs ghost code attached before/after the statement whose text starts with the anchor.
func (f *Frame) ghostAt(st *State, s ast.Stmt, before bool) {
	if f.fi == nil || len(f.fi.Ghost) == 0 || f.spec {
		return
	}
	text := ""
	for _, g := range f.fi.Ghost {
		if g.Before != before {
			continue
		}
		if text == "" {
			text = normSpace(f.vc.srcText(f.pk, s))
		}
		if !strings.HasPrefix(text, g.Anchor) {
			continue
		}
		g.Used = true
		at := s.Pos()
		if !before {
			at = s.End() // variables declared by the statement itself are visible to an "after" ghost
		}
		// inside a slice/int range loop a ghost may name the loop index (kvcIdx) although the code does not
		var special map[string]Term
		if n := len(f.rangeIdx); n > 0 {
			if t, ok := st.env[f.rangeIdx[n-1]]; ok {
				special = map[string]Term{"kvcIdx": t}
			}
		}
		args := f.bindByName(st, g.Params, at, special)
		gf := &Frame{vc: f.vc, pk: g.Pkg, spec: true, old: f.old, bound: map[types.Object]Term{}, specEnv: f.specEnv, closures: map[types.Object]*ast.FuncLit{}}
		gf.inline(st, g.Pkg, g.Decl, nil, args, f.tsub, true, s.Pos())
	}
}

// bindByName resolves spec-function parameters to the current values of the
// equally named variables visible at pos.
func (f *Frame) bindByName(st *State, params []*types.Var, pos token.Pos, special map[string]Term) []Term {
	vc := f.vc
	var out []Term
	scope := f.pk.Types.Scope().Innermost(pos)
	for _, p := range params {
		if t, ok := special[p.Name()]; ok {
			out = append(out, t)
			continue
		}
		var obj types.Object
		if scope != nil {
			_, obj = scope.LookupParent(p.Name(), pos)
		}
		if obj == nil {
			vc.fail(pos, "spec parameter %q: no variable of that name is visible at this point of %s", p.Name(), f.fi.Key)
		}
		v := f.lookupVar(st, obj, pos)
		// a spec parameter of interface type may name a variable of a concrete type that implements it (the variable of a
		// type switch has a different type in every clause): the value is boxed, as in an assignment
		if _, pIface := p.Type().Underlying().(*types.Interface); pIface {
			if _, vIface := obj.Type().Underlying().(*types.Interface); !vIface && types.AssignableTo(obj.Type(), p.Type()) {
				out = append(out, f.convert(v, obj.Type(), p.Type()))
				continue
			}
		}
		if want := f.sortOf(p.Type()); want != v.Sort {
			vc.fail(pos, "spec parameter %q has sort %s but the variable has sort %s", p.Name(), want, v.Sort)
		}
		if !mirrorIdentical(p.Type(), obj.Type()) {
			vc.fail(pos, "spec parameter %q has type %s but the variable has type %s", p.Name(), p.Type(), obj.Type())
		}
		out = append(out, v)
	}
	return out
}

// mirrorIdentical: the spec parameter's type is the variable's type - where the variable's type mentions a type
// declared inside the function (which a contract file cannot name), a package-level type of the same name and the
// same structure stands for it (field heaps are keyed by package, type name and field name, so both denote the
// same fields).
func mirrorIdentical(a, b types.Type) bool {
	a, b = types.Unalias(a), types.Unalias(b)
	if types.Identical(a, b) {
		return true
	}
	switch x := a.(type) {
	case *types.Pointer:
		y, ok := b.(*types.Pointer)
		return ok && mirrorIdentical(x.Elem(), y.Elem())
	case *types.Slice:
		y, ok := b.(*types.Slice)
		return ok && mirrorIdentical(x.Elem(), y.Elem())
	case *types.Map:
		y, ok := b.(*types.Map)
		return ok && mirrorIdentical(x.Key(), y.Key()) && mirrorIdentical(x.Elem(), y.Elem())
	case *types.Named:
		y, ok := b.(*types.Named)
		if !ok || x.Obj().Name() != y.Obj().Name() || x.Obj().Pkg() != y.Obj().Pkg() {
			return false
		}
		sx, ok1 := x.Underlying().(*types.Struct)
		sy, ok2 := y.Underlying().(*types.Struct)
		if !ok1 || !ok2 || sx.NumFields() != sy.NumFields() {
			return false
		}
		for i := 0; i < sx.NumFields(); i++ {
			if sx.Field(i).Name() != sy.Field(i).Name() || !mirrorIdentical(sx.Field(i).Type(), sy.Field(i).Type()) {
				return false
			}
		}
		return true
	}
	return false
}

func (f *Frame) stmt(st *State, s ast.Stmt, label string) []Outcome {
	vc := f.vc
	fall := func(s *State) []Outcome { return []Outcome{{kind: oFall, st: s}} }
	switch s := s.(type) {
	case *ast.EmptyStmt:
		return fall(st)
	case *ast.BlockStmt:
		return f.block(st, s.List)
	case *ast.LabeledStmt:
		return f.stmt(st, s.Stmt, s.Label.Name)
	case *ast.ExprStmt:
		if call, ok := s.X.(*ast.CallExpr); ok {
			f.call(st, call)
			return fall(st)
		}
		vc.fail(s.Pos(), "unsupported expression statement")
	case *ast.DeclStmt:
		gd := s.Decl.(*ast.GenDecl)
		if gd.Tok == token.TYPE || gd.Tok == token.CONST {
			return fall(st)
		}
		for _, sp := range gd.Specs {
			vs := sp.(*ast.ValueSpec)
			if len(vs.Values) == 1 && len(vs.Names) > 1 {
				call, ok := vs.Values[0].(*ast.CallExpr)
				if !ok {
					vc.fail(vs.Pos(), "multi-value var declaration")
				}
				rs := f.call(st, call)
				for i, nm := range vs.Names {
					f.declare(st, nm, rs[i], nil)
				}
				continue
			}
			for i, nm := range vs.Names {
				obj := f.info().Defs[nm]
				if obj == nil {
					continue
				}
				if i < len(vs.Values) {
					v := f.rhs(st, vs.Values[i], obj.Type(), obj)
					f.declare(st, nm, v, vs.Values[i])
				} else {
					f.declareZero(st, obj)
				}
			}
		}
		return fall(st)
	case *ast.AssignStmt:
		f.assign(st, s)
		return fall(st)
	case *ast.IncDecStmt:
		l := f.loc(st, s.X)
		v := f.load(st, l, s.Pos())
		d := "+"
		if s.Tok == token.DEC {
			d = "-"
		}
		f.store(st, l, app(SInt, d, v, IntLit(1)), s.Pos())
		return fall(st)
	case *ast.IfStmt:
		if s.Init != nil {
			outs := f.stmt(st, s.Init, "")
			st = outs[0].st
		}
		c := f.expr(st, s.Cond)
		ts := st.clone()
		ts.pc = vc.define("pc", And(st.pc, c))
		es := st.clone()
		es.pc = vc.define("pc", And(st.pc, Not(c)))
		outs := f.block(ts, s.Body.List)
		switch e := s.Else.(type) {
		case nil:
			outs = append(outs, Outcome{kind: oFall, st: es})
		case *ast.BlockStmt:
			outs = append(outs, f.block(es, e.List)...)
		case *ast.IfStmt:
			outs = append(outs, f.stmt(es, e, "")...)
		}
		return outs
	case *ast.ForStmt:
		return f.forLoop(st, s, label)
	case *ast.RangeStmt:
		return f.rangeLoop(st, s, label)
	case *ast.SwitchStmt:
		return f.switchStmt(st, s, label)
	case *ast.TypeSwitchStmt:
		return f.typeSwitch(st, s, label)
	case *ast.BranchStmt:
		lbl := ""
		if s.Label != nil {
			lbl = s.Label.Name
		}
		switch s.Tok {
		case token.BREAK:
			return []Outcome{{kind: oBrk, label: lbl, st: st}}
		case token.CONTINUE:
			return []Outcome{{kind: oCont, label: lbl, st: st}}
		}
		vc.fail(s.Pos(), "unsupported branch statement %s", s.Tok)
	case *ast.ReturnStmt:
		var vals []Term
		if len(s.Results) == 1 && len(f.results) > 1 {
			call, ok := s.Results[0].(*ast.CallExpr)
			if !ok {
				vc.fail(s.Pos(), "return of a multi-value non-call")
			}
			vals = f.call(st, call)
			for i := range vals {
				vals[i] = f.convert(vals[i], nil, nil)
			}
		} else if len(s.Results) == 0 && len(f.results) > 0 {
			for _, r := range f.results {
				vals = append(vals, f.lookupVar(st, r, s.Pos()))
			}
		} else {
			for i, r := range s.Results {
				var rt types.Type
				if i < len(f.results) {
					rt = f.results[i].Type()
				}
				if lit, ok := r.(*ast.FuncLit); ok {
					vals = append(vals, f.closureValue(st, lit))
					continue
				}
				vals = append(vals, f.rhs(st, r, rt, nil))
			}
		}
		return f.doReturn(st, vals, s.Pos())
	case *ast.DeferStmt:
		lit, ok := s.Call.Fun.(*ast.FuncLit)
		if !ok || len(s.Call.Args) != 0 {
			vc.fail(s.Pos(), "only `defer func(){...}()` is supported")
		}
		if !f.top {
			vc.fail(s.Pos(), "defer in an inlined function")
		}
		f.deferAdd(st, lit)
		return fall(st)
	case *ast.GoStmt, *ast.SelectStmt, *ast.SendStmt:
		vc.fail(s.Pos(), "concurrency statements are outside the supported subset")
	}
	vc.fail(s.Pos(), "unsupported statement %T", s)
	return nil
}

// rhs evaluates a right-hand side; &T{} and function literals get special treatment.
func (f *Frame) rhs(st *State, e ast.Expr, target types.Type, obj types.Object) Term {
	if lit, ok := e.(*ast.FuncLit); ok {
		if obj != nil {
			f.closures[obj] = lit
		}
		return f.closureValue(st, lit)
	}
	if id, ok := ast.Unparen(e).(*ast.Ident); ok && id.Name == "nil" && target != nil {
		if _, isNil := f.info().Uses[id].(*types.Nil); isNil {
			return f.vc.zero(f.subst(target))
		}
	}
	v := f.expr(st, e)
	if target != nil {
		return f.convert(v, f.typeOf(e), target)
	}
	return v
}

func (f *Frame) declare(st *State, nm *ast.Ident, v Term, src ast.Expr) {
	if nm.Name == "_" {
		return
	}
	obj := f.info().Defs[nm]
	if obj == nil { // redeclaration in := with mixed new/old
		obj = f.info().Uses[nm]
	}
	if obj == nil {
		f.vc.fail(nm.Pos(), "cannot resolve %s", nm.Name)
	}
	st.env[envKey{obj, ""}] = f.vc.define(nm.Name, v)
}

func (f *Frame) declareZero(st *State, obj types.Object) {
	t := f.subst(obj.Type())
	st.env[envKey{obj, ""}] = f.vc.zero(t)
}

func (f *Frame) zeroStructVar(st *State, obj types.Object, prefix string, stt *types.Struct) {
	for i := 0; i < stt.NumFields(); i++ {
		fld := stt.Field(i)
		p := fld.Name()
		if prefix != "" {
			p = prefix + "." + p
		}
		ft := f.subst(fld.Type())
		if isStructValue(ft) {
			f.zeroStructVar(st, obj, p, ft.Underlying().(*types.Struct))
			continue
		}
		if isEmptyStruct(ft) {
			continue
		}
		st.env[envKey{obj, p}] = f.vc.zero(ft)
	}
}

func (f *Frame) assign(st *State, s *ast.AssignStmt) {
	vc := f.vc
	// op-assign
	if s.Tok != token.ASSIGN && s.Tok != token.DEFINE {
		l := f.loc(st, s.Lhs[0])
		a := f.load(st, l, s.Pos())
		b := f.expr(st, s.Rhs[0])
		var v Term
		switch s.Tok {
		case token.ADD_ASSIGN:
			if a.Sort == SString {
				v = app(SString, "str.++", a, b)
			} else {
				v = app(SInt, "+", a, b)
			}
		case token.SUB_ASSIGN:
			v = app(SInt, "-", a, b)
		case token.MUL_ASSIGN:
			v = app(SInt, "*", a, b)
		default:
			vc.fail(s.Pos(), "unsupported assignment operator %s", s.Tok)
		}
		f.store(st, l, v, s.Pos())
		return
	}
	// tuple forms
	if len(s.Lhs) > 1 && len(s.Rhs) == 1 {
		var vals []Term
		switch r := ast.Unparen(s.Rhs[0]).(type) {
		case *ast.CallExpr:
			vals = f.call(st, r)
		case *ast.IndexExpr: // v, ok := m[k]
			mt, ok := f.typeOf(r.X).Underlying().(*types.Map)
			if !ok {
				vc.fail(s.Pos(), "comma-ok on non-map index")
			}
			m := f.expr(st, r.X)
			k := f.convert(f.expr(st, r.Index), f.typeOf(r.Index), mt.Key())
			_, vs := vc.mapSorts(mt)
			vals = []Term{f.typed(st, vc.mapRead(st, m, k, vs), mt.Elem()), vc.mapHas(st, m, k)}
		case *ast.TypeAssertExpr: // v, ok := x.(T)
			x := f.expr(st, r.X)
			t := f.typeOf(r.Type)
			if _, isIface := t.Underlying().(*types.Interface); isIface {
				vc.fail(s.Pos(), "comma-ok assertion to an interface type")
			}
			ok := Eq(ITag(x), IntLit(int64(vc.tagOf(t))))
			vals = []Term{Ite(ok, IRef(x), vc.zero(t)), ok}
		default:
			vc.fail(s.Pos(), "unsupported multi-value right-hand side")
		}
		if len(vals) != len(s.Lhs) {
			vc.fail(s.Pos(), "assignment arity mismatch")
		}
		for i, lh := range s.Lhs {
			f.assignOne(st, s, lh, vals[i], nil)
		}
		return
	}
	// ghost map reset: g = map[K]V{} (ghost maps are total arrays: every key maps to the zero value again)
	if len(s.Lhs) == 1 && len(s.Rhs) == 1 && s.Tok == token.ASSIGN {
		if gv, ok := f.ghostMapVar(s.Lhs[0]); ok {
			cl, isLit := ast.Unparen(s.Rhs[0]).(*ast.CompositeLit)
			if !isLit || len(cl.Elts) != 0 {
				vc.fail(s.Pos(), "a ghost map can only be reset to an empty literal")
			}
			ks, vs := vc.mapSorts(gv.Type().Underlying().(*types.Map))
			vc.heapSet(st, ghostMapKey(gv), vc.define("gm", ConstArray(ks, vs, vc.zeroSort(vs))))
			return
		}
	}
	// parallel assignment: evaluate all right-hand sides first
	vals := make([]Term, len(s.Rhs))
	for i, r := range s.Rhs {
		lh := s.Lhs[i]
		var tt types.Type
		var obj types.Object
		if id, ok := lh.(*ast.Ident); ok && id.Name != "_" {
			obj = f.info().Defs[id]
			if obj == nil {
				obj = f.info().Uses[id]
			}
			if obj != nil {
				tt = obj.Type()
			}
		} else if id == nil || !ok {
			tt = f.info().TypeOf(lh)
		}
		vals[i] = f.rhs(st, r, tt, obj)
	}
	for i, lh := range s.Lhs {
		if vals[i].S == "" {
			continue
		}
		f.assignOne(st, s, lh, vals[i], s.Rhs[i])
	}
}

func (f *Frame) structLitToVar(st *State, id *ast.Ident, cl *ast.CompositeLit) {
	vc := f.vc
	obj := f.info().Defs[id]
	if obj == nil {
		obj = f.info().Uses[id]
	}
	stt := f.typeOf(cl).Underlying().(*types.Struct)
	f.zeroStructVar(st, obj, "", stt)
	for i, el := range cl.Elts {
		var name string
		var val ast.Expr
		if kv, ok := el.(*ast.KeyValueExpr); ok {
			name = kv.Key.(*ast.Ident).Name
			val = kv.Value
		} else {
			name = stt.Field(i).Name()
			val = el
		}
		var ft types.Type
		for j := 0; j < stt.NumFields(); j++ {
			if stt.Field(j).Name() == name {
				ft = stt.Field(j).Type()
			}
		}
		if isStructValue(ft) {
			vc.fail(el.Pos(), "nested struct literal")
		}
		st.env[envKey{obj, name}] = vc.define(name, f.convert(f.expr(st, val), f.typeOf(val), ft))
	}
}

func (f *Frame) assignOne(st *State, s *ast.AssignStmt, lh ast.Expr, v Term, src ast.Expr) {
	if id, ok := lh.(*ast.Ident); ok {
		if id.Name == "_" {
			return
		}
		if s.Tok == token.DEFINE {
			f.declare(st, id, v, src)
			return
		}
	}
	l := f.loc(st, lh)
	if v.Sort != SIface {
		if _, isI := l.typ.Underlying().(*types.Interface); isI && src != nil {
			v = f.convert(v, f.typeOf(src), l.typ)
		}
	}
	f.store(st, l, v, s.Pos())
}

// ------------------------------------------------------------ switch

func (f *Frame) switchStmt(st *State, s *ast.SwitchStmt, label string) []Outcome {
	vc := f.vc
	if s.Init != nil {
		st = f.stmt(st, s.Init, "")[0].st
	}
	var tag *Term
	var tagT types.Type
	if s.Tag != nil {
		t := f.expr(st, s.Tag)
		tag = &t
		tagT = f.typeOf(s.Tag)
	}
	var outs []Outcome
	none := True
	var deflt *ast.CaseClause
	for _, c := range s.Body.List {
		cc := c.(*ast.CaseClause)
		if cc.List == nil {
			deflt = cc
			continue
		}
		cond := False
		for _, e := range cc.List {
			if tag != nil {
				v := f.convert(f.expr(st, e), f.typeOf(e), tagT)
				cond = Or(cond, Eq(*tag, v))
			} else {
				cond = Or(cond, f.expr(st, e))
			}
		}
		bs := st.clone()
		bs.pc = vc.define("pc", And(st.pc, none, cond))
		none = And(none, Not(cond))
		outs = append(outs, f.block(bs, cc.Body)...)
	}
	ds := st.clone()
	ds.pc = vc.define("pc", And(st.pc, none))
	if deflt != nil {
		outs = append(outs, f.block(ds, deflt.Body)...)
	} else {
		outs = append(outs, Outcome{kind: oFall, st: ds})
	}
	return consumeBreaks(outs, label)
}

func consumeBreaks(outs []Outcome, label string) []Outcome {
	for i := range outs {
		if outs[i].kind == oBrk && (outs[i].label == "" || outs[i].label == label) {
			outs[i].kind = oFall
			outs[i].label = ""
		}
	}
	return outs
}

func (f *Frame) typeSwitch(st *State, s *ast.TypeSwitchStmt, label string) []Outcome {
	vc := f.vc
	if s.Init != nil {
		st = f.stmt(st, s.Init, "")[0].st
	}
	var x ast.Expr
	switch a := s.Assign.(type) {
	case *ast.AssignStmt:
		x = a.Rhs[0].(*ast.TypeAssertExpr).X
	case *ast.ExprStmt:
		x = a.X.(*ast.TypeAssertExpr).X
	}
	xv := f.expr(st, x)
	var outs []Outcome
	none := True
	var deflt *ast.CaseClause
	for _, c := range s.Body.List {
		cc := c.(*ast.CaseClause)
		if cc.List == nil {
			deflt = cc
			continue
		}
		cond := False
		var single types.Type
		for _, e := range cc.List {
			if id, ok := e.(*ast.Ident); ok && id.Name == "nil" {
				cond = Or(cond, Eq(xv, NilIface()))
				continue
			}
			t := f.typeOf(e)
			if _, isI := t.Underlying().(*types.Interface); isI {
				vc.fail(e.Pos(), "type switch case on an interface type")
			}
			cond = Or(cond, Eq(ITag(xv), IntLit(int64(vc.tagOf(t)))))
			if len(cc.List) == 1 {
				single = t
			}
		}
		bs := st.clone()
		bs.pc = vc.define("pc", And(st.pc, none, cond))
		none = And(none, Not(cond))
		if obj := f.info().Implicits[cc]; obj != nil {
			if single != nil {
				bs.env[envKey{obj, ""}] = IRef(xv)
			} else {
				bs.env[envKey{obj, ""}] = xv
			}
		}
		outs = append(outs, f.block(bs, cc.Body)...)
	}
	ds := st.clone()
	ds.pc = vc.define("pc", And(st.pc, none))
	if deflt != nil {
		if obj := f.info().Implicits[deflt]; obj != nil {
			ds.env[envKey{obj, ""}] = xv
		}
		outs = append(outs, f.block(ds, deflt.Body)...)
	} else {
		outs = append(outs, Outcome{kind: oFall, st: ds})
	}
	return consumeBreaks(outs, label)
}

// ------------------------------------------------------------ return / defer / post

func (f *Frame) deferAdd(st *State, lit *ast.FuncLit) {
	key := envKey{nil, "$defers"}
	cur := st.env[key]
	// the list of registered defers is encoded in a pseudo-variable (path-sensitive)
	f.vc.deferLits = append(f.vc.deferLits, lit)
	cur.S = cur.S + fmt.Sprintf(",%d", len(f.vc.deferLits)-1)
	cur.Sort = "$defers"
	st.env[key] = cur
}

func (f *Frame) doReturn(st *State, vals []Term, pos token.Pos) []Outcome {
	vc := f.vc
	if !f.top {
		return []Outcome{{kind: oRet, st: st, vals: vals}}
	}
	named := len(f.results) > 0 && f.results[0].Name() != "" && f.results[0].Name() != "_"
	if named {
		for i, r := range f.results {
			if i < len(vals) && r.Name() != "_" {
				st.env[envKey{r, ""}] = vals[i]
			}
		}
	}
	// deferred closures, LIFO, in the same environment (captured by reference)
	if d, ok := st.env[envKey{nil, "$defers"}]; ok && d.S != "" {
		ids := strings.Split(strings.TrimPrefix(d.S, ","), ",")
		delete(st.env, envKey{nil, "$defers"})
		for i := len(ids) - 1; i >= 0; i-- {
			var n int
			fmt.Sscanf(ids[i], "%d", &n)
			lit := vc.deferLits[n]
			nf := *f
			nf.top = false
			nf.results = nil
			outs := nf.block(st, lit.Body.List)
			var ends []*State
			for _, o := range outs {
				ends = append(ends, o.st)
			}
			st = vc.merge(ends)
			if st == nil {
				return nil
			}
		}
		if named {
			for i, r := range f.results {
				if r.Name() != "_" {
					vals[i] = f.lookupVar(st, r, pos)
				}
			}
		}
	}
	f.checkPost(st, vals, pos)
	return []Outcome{{kind: oRet, st: st, vals: vals}}
}

func (f *Frame) checkPost(st *State, vals []Term, pos token.Pos) {
	vc := f.vc
	sp := f.spc
	if sp == nil {
		return
	}
	vc.callN["return"]++
	site := fmt.Sprintf("@return#%d", vc.callN["return"])
	env := map[envKey]Term{}
	for k, v := range f.specEnv {
		env[k] = v
	}
	for i, r := range sp.Results {
		if i < len(vals) {
			env[envKey{r, ""}] = vals[i]
		}
	}
	sf := &Frame{vc: vc, pk: sp.Pkg, spec: true, old: f.old, specEnv: env, tsub: f.tsub, bound: map[types.Object]Term{}}
	saved := vc.entryVals
	for i, v := range vals {
		vc.entryVals = append(vc.entryVals[:len(vc.entryVals):len(vc.entryVals)], NamedTerm{fmt.Sprintf("result%d", i), v})
	}
	for _, w := range sp.Witness {
		vc.entryVals = append(vc.entryVals[:len(vc.entryVals):len(vc.entryVals)], NamedTerm{w.Label, sf.expr(st, w.Expr)})
	}
	for _, c := range sp.Ensures {
		cond := sf.expr(st, c.Expr)
		vc.obligeOnly(st, "post."+c.Label+site, "post", cond, pos, vc.srcText(sp.Pkg, c.Expr))
	}
	vc.entryVals = saved
	if sp.ModAll {
		return
	}
	sets := f.modifiesSets(sp, sf, f.old)
	var keys []string
	for k := range st.heap {
		keys = append(keys, k)
	}
	sortStrings(keys)
	for _, k := range keys {
		cur := st.heap[k]
		srt := vc.heapSort[k]
		old := vc.heapGet(f.old, k, srt)
		if cur.S == old.S {
			continue
		}
		ms := sets[k]
		if ms != nil && ms.whole {
			continue
		}
		name := "frame." + mangle(k) + site
		switch {
		case k == allocKey:
			if !sp.Allocs {
				vc.obligeOnly(st, name, "frame", Eq(cur, old), pos, "function allocates but its contract has no Allocates()")
			}
		case strings.HasPrefix(k, "G:"), strings.HasPrefix(k, "GM:"):
			vc.obligeOnly(st, name, "frame", Eq(cur, old), pos, "global "+k+" not in Modifies")
		default:
			r := Term{"r!", SInt}
			conds := []Term{vc.isAlloc(f.old, r)}
			if ms != nil {
				for _, x := range ms.refs {
					conds = append(conds, Not(Eq(r, x)))
				}
			}
			vc.obligeOnly(st, name, "frame", Forall([]Term{r}, Imp(And(conds...), Eq(Select(cur, r), Select(old, r)))), pos, k+" changed outside Modifies")
		}
	}
}

func sortStrings(s []string) {
	for i := 1; i < len(s); i++ {
		for j := i; j > 0 && s[j] < s[j-1]; j-- {
			s[j], s[j-1] = s[j-1], s[j]
		}
	}
}

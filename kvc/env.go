package main
import "os"
func envBase() []string { return os.Environ() }

package main

import (
	"bytes"
	"context"
	"fmt"
	"os"
	"os/exec"
	"path/filepath"
	"strings"
	"sync"
	"time"
)

type SolveResult struct {
	Status  string            `json:"result"` // unsat | sat | unknown | timeout | error
	Backend string            `json:"backend"`
	TimeS   float64           `json:"time_s"`
	Output  string            `json:"output,omitempty"` // solver output after the first line (model values)
	All     map[string]string `json:"all_backends,omitempty"`
}

type backend struct {
	name string
	argv func(file string, timeoutS int, seed int) []string
}

var backends = []backend{
	{"z3-5.1.0", func(f string, t, seed int) []string {
		return []string{"z3-new", fmt.Sprintf("-T:%d", t), fmt.Sprintf("smt.random_seed=%d", seed), f}
	}},
	{"z3-4.8.12", func(f string, t, seed int) []string {
		return []string{"/usr/bin/z3", fmt.Sprintf("-T:%d", t), fmt.Sprintf("smt.random_seed=%d", seed), f}
	}},
	{"z3-5.1.0-ematch", func(f string, t, seed int) []string {
		// trigger-based instantiation only (the Boogie/Dafny configuration): never answers sat, fast on large contexts
		return []string{"z3-new", fmt.Sprintf("-T:%d", t), "smt.mbqi=false", "smt.auto_config=false", fmt.Sprintf("smt.random_seed=%d", seed), f}
	}},
	{"cvc5-1.0.3", func(f string, t, seed int) []string {
		return []string{"cvc5", "--strings-exp", fmt.Sprintf("--tlimit=%d", t*1000), fmt.Sprintf("--seed=%d", seed), f}
	}},
}

func firstWord(out string) string {
	for _, ln := range strings.Split(out, "\n") {
		ln = strings.TrimSpace(ln)
		if ln == "" || strings.HasPrefix(ln, "WARNING") {
			continue
		}
		switch ln {
		case "sat", "unsat", "unknown", "timeout":
			return ln
		}
		if strings.HasPrefix(ln, "(error") {
			return "error"
		}
		return "error"
	}
	return "error"
}

// solveFile races the back ends on one query. needAgree>1 asks for that many
// back ends to answer unsat before unsat is reported (thorough tier).
// quickBackends: the back ends raced in the quick tier (z3 4.8.12 almost never answers first and costs a core).
func activeBackends(needAgree int) []backend {
	if needAgree > 1 && os.Getenv("KVC_AUDIT") == "" {
		return backends
	}
	var out []backend
	for _, b := range backends {
		if b.name != "z3-4.8.12" {
			out = append(out, b)
		}
	}
	return out
}

func solveFile(file string, timeoutS int, seed int, needAgree int) SolveResult {
	ctx, cancel := context.WithTimeout(context.Background(), time.Duration(timeoutS+2)*time.Second)
	defer cancel()
	type one struct {
		name, status, out string
		dt                float64
	}
	ch := make(chan one, len(backends))
	var wg sync.WaitGroup
	for _, b := range activeBackends(needAgree) {
		wg.Add(1)
		go func(b backend) {
			defer wg.Done()
			t0 := time.Now()
			argv := b.argv(file, timeoutS, seed)
			cmd := exec.CommandContext(ctx, argv[0], argv[1:]...)
			var buf bytes.Buffer
			cmd.Stdout = &buf
			cmd.Stderr = &buf
			_ = cmd.Run()
			out := buf.String()
			st := firstWord(out)
			if ctx.Err() != nil && st == "error" {
				st = "timeout"
			}
			ch <- one{b.name, st, out, time.Since(t0).Seconds()}
		}(b)
	}
	go func() { wg.Wait(); close(ch) }()
	res := SolveResult{Status: "unknown", All: map[string]string{}}
	unsatN := 0
	var firstUnsat *one
	t0 := time.Now()
	for o := range ch {
		o := o
		res.All[o.name] = o.status
		switch o.status {
		case "sat":
			cancel()
			rest := o.out
			if i := strings.Index(rest, "\n"); i >= 0 {
				rest = rest[i+1:]
			}
			return SolveResult{Status: "sat", Backend: o.name, TimeS: o.dt, Output: rest, All: res.All}
		case "unsat":
			unsatN++
			if firstUnsat == nil {
				firstUnsat = &o
			}
			if unsatN >= needAgree {
				cancel()
				return SolveResult{Status: "unsat", Backend: firstUnsat.name, TimeS: firstUnsat.dt, All: res.All}
			}
		case "error":
			if res.Output == "" {
				res.Output = o.name + ": " + truncate(o.out, 400)
			}
		}
	}
	res.TimeS = time.Since(t0).Seconds()
	if firstUnsat != nil {
		// fewer agreeing back ends than requested: report as unsat-by-one
		res.Status = "unsat"
		res.Backend = firstUnsat.name
		if os.Getenv("KVC_AUDIT") != "" {
			res.Backend = fmt.Sprintf("%s [audit: %d of %d back ends proved it]", firstUnsat.name, unsatN, len(res.All))
		}
		res.TimeS = firstUnsat.dt
		res.Output = fmt.Sprintf("only %d back end(s) agreed", unsatN)
		return res
	}
	allTimeout := true
	for _, s := range res.All {
		if s != "timeout" {
			allTimeout = false
		}
	}
	if allTimeout {
		res.Status = "timeout"
	}
	allError := len(res.All) > 0
	for _, s := range res.All {
		if s != "error" {
			allError = false
		}
	}
	if allError {
		res.Status = "solver-error: " + strings.ReplaceAll(truncate(res.Output, 300), "\n", " ")
	}
	return res
}

func truncate(s string, n int) string {
	if len(s) > n {
		return s[:n] + "…"
	}
	return s
}

func writeQuery(dir, name, text string) (string, error) {
	if err := os.MkdirAll(dir, 0o755); err != nil {
		return "", err
	}
	p := filepath.Join(dir, mangle(name)+".smt2")
	return p, os.WriteFile(p, []byte(text), 0o644)
}

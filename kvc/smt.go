package main

import (
	"fmt"
	"strings"
)

// Term is an SMT-LIB term together with its sort (both as text).
type Term struct {
	S    string
	Sort string
}

const (
	SBool   = "Bool"
	SInt    = "Int"
	SString = "String"
	SIface  = "Iface"
	SUnit   = "Bool" // struct{} values carry no information
)

func ArraySort(k, v string) string { return "(Array " + k + " " + v + ")" }
func SliceSort(e string) string    { return "(Slice " + e + ")" }

func isSliceSort(s string) bool { return strings.HasPrefix(s, "(Slice ") }
func sliceElemSort(s string) string {
	return strings.TrimSuffix(strings.TrimPrefix(s, "(Slice "), ")")
}

// arrayParts splits "(Array K V)" into K and V.
func arrayParts(s string) (string, string) {
	if !strings.HasPrefix(s, "(Array ") {
		panic("not an array sort: " + s)
	}
	body := s[len("(Array ") : len(s)-1]
	// K is the first balanced s-expression
	depth := 0
	for i, c := range body {
		switch c {
		case '(':
			depth++
		case ')':
			depth--
		case ' ':
			if depth == 0 {
				return body[:i], body[i+1:]
			}
		}
	}
	panic("bad array sort: " + s)
}

func app(sort, op string, args ...Term) Term {
	var b strings.Builder
	b.WriteString("(")
	b.WriteString(op)
	for _, a := range args {
		b.WriteString(" ")
		b.WriteString(a.S)
	}
	b.WriteString(")")
	return Term{b.String(), sort}
}

var (
	True  = Term{"true", SBool}
	False = Term{"false", SBool}
)

func IntLit(n int64) Term {
	if n < 0 {
		return Term{fmt.Sprintf("(- %d)", -n), SInt}
	}
	return Term{fmt.Sprintf("%d", n), SInt}
}

func BoolLit(b bool) Term {
	if b {
		return True
	}
	return False
}

func StrLit(s string) Term {
	var b strings.Builder
	b.WriteByte('"')
	for _, r := range []byte(s) {
		switch {
		case r == '"':
			b.WriteString(`""`)
		case r == '\\':
			b.WriteString(`\u{5c}`)
		case r < 0x20 || r > 0x7e:
			fmt.Fprintf(&b, `\u{%x}`, r)
		default:
			b.WriteByte(r)
		}
	}
	b.WriteByte('"')
	return Term{b.String(), SString}
}

func Not(a Term) Term {
	switch a.S {
	case "true":
		return False
	case "false":
		return True
	}
	return app(SBool, "not", a)
}

func And(ts ...Term) Term {
	var xs []Term
	for _, t := range ts {
		if t.S == "true" {
			continue
		}
		if t.S == "false" {
			return False
		}
		xs = append(xs, t)
	}
	switch len(xs) {
	case 0:
		return True
	case 1:
		return xs[0]
	}
	return app(SBool, "and", xs...)
}

func Or(ts ...Term) Term {
	var xs []Term
	for _, t := range ts {
		if t.S == "false" {
			continue
		}
		if t.S == "true" {
			return True
		}
		xs = append(xs, t)
	}
	switch len(xs) {
	case 0:
		return False
	case 1:
		return xs[0]
	}
	return app(SBool, "or", xs...)
}

func Imp(a, b Term) Term {
	if a.S == "true" {
		return b
	}
	if a.S == "false" || b.S == "true" {
		return True
	}
	return app(SBool, "=>", a, b)
}

func Eq(a, b Term) Term {
	if a.Sort != b.Sort {
		panic(fmt.Sprintf("Eq: sort mismatch %s:%s vs %s:%s", a.S, a.Sort, b.S, b.Sort))
	}
	if a.S == b.S {
		return True
	}
	return app(SBool, "=", a, b)
}

func Ite(c, a, b Term) Term {
	if a.Sort != b.Sort {
		panic(fmt.Sprintf("Ite: sort mismatch %s:%s vs %s:%s", a.S, a.Sort, b.S, b.Sort))
	}
	if c.S == "true" || a.S == b.S {
		return a
	}
	if c.S == "false" {
		return b
	}
	return app(a.Sort, "ite", c, a, b)
}

func Select(arr, idx Term) Term {
	_, v := arrayParts(arr.Sort)
	return app(v, "select", arr, idx)
}

func Store(arr, idx, val Term) Term {
	k, v := arrayParts(arr.Sort)
	if idx.Sort != k || val.Sort != v {
		panic(fmt.Sprintf("Store: sort mismatch arr %s idx %s:%s val %s:%s", arr.Sort, idx.S, idx.Sort, val.S, val.Sort))
	}
	return app(arr.Sort, "store", arr, idx, val)
}

func ConstArray(k, v string, val Term) Term {
	s := ArraySort(k, v)
	return Term{"((as const " + s + ") " + val.S + ")", s}
}

func SLen(s Term) Term { return app(SInt, "slen", s) }
func SArr(s Term) Term { return app(ArraySort(SInt, sliceElemSort(s.Sort)), "sarr", s) }
func MkSlice(arr, n Term) Term {
	_, v := arrayParts(arr.Sort)
	// qualified: z3 cannot infer the instance of the parametric constructor under a polymorphic selector
	return app(SliceSort(v), "(as mkslice "+SliceSort(v)+")", arr, n)
}

func NilIface() Term { return Term{"(mkiface 0 0)", SIface} }
func MkIface(tag int, r Term) Term {
	return Term{fmt.Sprintf("(mkiface %d %s)", tag, r.S), SIface}
}
func ITag(i Term) Term { return app(SInt, "itag", i) }
func IRef(i Term) Term { return app(SInt, "iref", i) }

func Forall(vars []Term, body Term, patterns ...Term) Term {
	if len(vars) == 0 {
		return body
	}
	var b strings.Builder
	b.WriteString("(forall (")
	for i, v := range vars {
		if i > 0 {
			b.WriteString(" ")
		}
		fmt.Fprintf(&b, "(%s %s)", v.S, v.Sort)
	}
	b.WriteString(") ")
	var pats []Term
	for _, p := range patterns {
		if validPattern(p.S) && (patternHook == nil || patternHook(p.S)) {
			pats = append(pats, p)
		}
	}
	patterns = pats
	if len(patterns) > 0 {
		b.WriteString("(! ")
		b.WriteString(body.S)
		for _, p := range patterns {
			b.WriteString(" :pattern (" + p.S + ")")
		}
		b.WriteString(")")
	} else {
		b.WriteString(body.S)
	}
	b.WriteString(")")
	return Term{b.String(), SBool}
}

func Exists(vars []Term, body Term) Term {
	if len(vars) == 0 {
		return body
	}
	var b strings.Builder
	b.WriteString("(exists (")
	for i, v := range vars {
		if i > 0 {
			b.WriteString(" ")
		}
		fmt.Fprintf(&b, "(%s %s)", v.S, v.Sort)
	}
	b.WriteString(") ")
	b.WriteString(body.S)
	b.WriteString(")")
	return Term{b.String(), SBool}
}

const prelude = `(set-option :produce-models true)
(set-logic ALL)
(declare-datatypes ((Slice 1)) ((par (T) ((mkslice (sarr (Array Int T)) (slen Int))))))
(declare-datatypes ((Iface 0)) (((mkiface (itag Int) (iref Int)))))
(declare-fun typeof (Int) Int)
`

func mangle(s string) string {
	var b strings.Builder
	for _, r := range s {
		switch {
		case r >= 'a' && r <= 'z', r >= 'A' && r <= 'Z', r >= '0' && r <= '9', r == '_':
			b.WriteRune(r)
		default:
			b.WriteRune('_')
		}
	}
	return b.String()
}

// patternHook lets the VC generator veto patterns that mention defined names whose definitions
// contain connectives (solvers expand define-fun macros inside patterns).
var patternHook func(string) bool

// validPattern: a trigger must be built from function applications only.
func validPattern(s string) bool {
	for _, bad := range []string{"(ite ", "(and ", "(or ", "(not ", "(=> ", "(= ", "(<= ", "(< ", "(>= ", "(> ", "(forall ", "(exists "} {
		if strings.Contains(s, bad) {
			return false
		}
	}
	return strings.HasPrefix(s, "(")
}

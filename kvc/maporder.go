package main

import (
	"fmt"
	"go/ast"
	"go/types"
	"sort"
	"strings"

	"golang.org/x/tools/go/packages"
)

// Order-independence obligations for `for k, v := range m` over a Go map (C11, C14).
//
// Go randomises map iteration order per process, so generated output is a function of the input only if
// every map range in the generator commutes. For every map range found in the non-test, non-contract
// sources of the given packages one obligation is generated:
//
//   commuting bodies: from one arbitrary state (every free variable and the whole heap are symbolic), for
//     two distinct arbitrary keys k1 != k2 of the map, executing the body for k1 then k2 and for k2 then k1
//     must end in equal states (every heap array and every outer local the body assigns). Callees are
//     used by contract; a callee's havoc'ed effects get different fresh constants in the two orders, so a
//     body whose callees have order-sensitive effects (e.g. the name allocator) is NOT discharged.
//   canonicalised accumulation: a local slice that the body only appends to is exempt from the comparison
//     if the statement following the loop sorts it (slices.SortFunc / sort.Slice), or if the slice is the
//     function's result and every caller in the package sorts it before use (checked syntactically; the
//     sort specification "a sorted permutation" and the distinctness of the keys are trusted).
//
// A map range that is neither is reported. No annotation is involved: a NEW map range anywhere in these
// packages gets an obligation automatically.

type mapRangeSite struct {
	pk   *packages.Package
	fd   *ast.FuncDecl
	rs   *ast.RangeStmt
	name string
}

func findMapRanges(prog *Program, pkgPaths []string) []mapRangeSite {
	var out []mapRangeSite
	for _, pp := range pkgPaths {
		pk := prog.Pkgs[pp]
		if pk == nil {
			continue
		}
		for _, f := range pk.Syntax {
			fn := prog.Fset.Position(f.Pos()).Filename
			if strings.HasSuffix(fn, "_test.go") || prog.SpecFile[f] {
				continue
			}
			for _, d := range f.Decls {
				fd, ok := d.(*ast.FuncDecl)
				if !ok || fd.Body == nil {
					continue
				}
				ord := 0
				ast.Inspect(fd.Body, func(n ast.Node) bool {
					rs, ok := n.(*ast.RangeStmt)
					if !ok {
						return true
					}
					if _, isMap := pk.TypesInfo.TypeOf(rs.X).Underlying().(*types.Map); isMap {
						ord++
						key := fd.Name.Name
						if fd.Recv != nil && len(fd.Recv.List) == 1 {
							key = "(" + exprString(fd.Recv.List[0].Type) + ")." + key
						}
						out = append(out, mapRangeSite{pk, fd, rs, fmt.Sprintf("%s.%s/maprange[%s]#%d", pk.Name, key, exprString(rs.X), ord)})
					}
					return true
				})
			}
		}
	}
	sort.Slice(out, func(i, j int) bool { return out[i].name < out[j].name })
	return out
}

// sortedAfter reports whether slice variable obj is sorted right after the loop, or returned and sorted by every caller.
func sortedAfter(prog *Program, site mapRangeSite, obj types.Object) (bool, string) {
	info := site.pk.TypesInfo
	isSortCall := func(s ast.Stmt, target types.Object) bool {
		es, ok := s.(*ast.ExprStmt)
		if !ok {
			return false
		}
		call, ok := es.X.(*ast.CallExpr)
		if !ok || len(call.Args) < 2 {
			return false
		}
		sel, ok := call.Fun.(*ast.SelectorExpr)
		if !ok {
			return false
		}
		fn, ok := info.Uses[sel.Sel].(*types.Func)
		if !ok || fn.Pkg() == nil {
			return false
		}
		full := fn.Pkg().Path() + "." + fn.Name()
		if full != "slices.SortFunc" && full != "sort.Slice" && full != "sort.SliceStable" && full != "slices.SortStableFunc" {
			return false
		}
		id, ok := ast.Unparen(call.Args[0]).(*ast.Ident)
		return ok && info.Uses[id] == target
	}
	// find the block containing the range statement and look at the statements after it
	var found bool
	var why string
	ast.Inspect(site.fd.Body, func(n ast.Node) bool {
		bl, ok := n.(*ast.BlockStmt)
		if !ok || found {
			return !found
		}
		for i, s := range bl.List {
			if s != ast.Stmt(site.rs) {
				continue
			}
			for _, nx := range bl.List[i+1:] {
				if isSortCall(nx, obj) {
					found, why = true, "sorted by the statement after the loop"
					return false
				}
				// any other use of the slice before a sort ends the search
				used := false
				ast.Inspect(nx, func(m ast.Node) bool {
					if id, ok := m.(*ast.Ident); ok && info.Uses[id] == obj {
						used = true
					}
					return true
				})
				if used {
					// returned as is? then the callers must sort
					if rt, ok := nx.(*ast.ReturnStmt); ok && len(rt.Results) >= 1 {
						if id, ok := ast.Unparen(rt.Results[0]).(*ast.Ident); ok && info.Uses[id] == obj {
							if ok2, w := callersSort(prog, site); ok2 {
								found, why = true, w
							}
						}
					}
					return false
				}
			}
		}
		return true
	})
	return found, why
}

// callersSort: every call of site.fd in its package passes the result to a function that sorts its parameter first.
func callersSort(prog *Program, site mapRangeSite) (bool, string) {
	info := site.pk.TypesInfo
	target := info.Defs[site.fd.Name]
	n, okAll := 0, true
	var consumers []string
	for _, f := range site.pk.Syntax {
		if strings.HasSuffix(prog.Fset.Position(f.Pos()).Filename, "_test.go") || prog.SpecFile[f] {
			continue
		}
		ast.Inspect(f, func(nd ast.Node) bool {
			call, ok := nd.(*ast.CallExpr)
			if !ok {
				return true
			}
			var id *ast.Ident
			switch fn := call.Fun.(type) {
			case *ast.Ident:
				id = fn
			case *ast.SelectorExpr:
				id = fn.Sel
			}
			if id == nil || info.Uses[id] != target {
				return true
			}
			n++
			// the result must flow (directly or via one local) into a call of a package function whose body sorts that parameter
			if !resultSortedDownstream(prog, site.pk, f, call, &consumers) {
				okAll = false
			}
			return true
		})
	}
	if n == 0 || !okAll {
		return false, ""
	}
	return true, "returned; sorted by every consumer in the package (" + strings.Join(consumers, ", ") + ")"
}

func resultSortedDownstream(prog *Program, pk *packages.Package, file *ast.File, call *ast.CallExpr, consumers *[]string) bool {
	info := pk.TypesInfo
	// find the variable the result is assigned to
	var holder types.Object
	var encl *ast.FuncDecl
	for _, d := range file.Decls {
		if fd, ok := d.(*ast.FuncDecl); ok && fd.Pos() <= call.Pos() && call.End() <= fd.End() {
			encl = fd
		}
	}
	if encl == nil {
		return false
	}
	ast.Inspect(encl, func(n ast.Node) bool {
		as, ok := n.(*ast.AssignStmt)
		if !ok || len(as.Rhs) != 1 || as.Rhs[0] != ast.Expr(call) || len(as.Lhs) != 1 {
			return true
		}
		if id, ok := as.Lhs[0].(*ast.Ident); ok {
			holder = info.Defs[id]
			if holder == nil {
				holder = info.Uses[id]
			}
		}
		return true
	})
	if holder == nil {
		return false
	}
	// the holder is only appended into another slice that is stored in a struct field / passed on; follow one step:
	// accept if SOME function of the package sorts a slice of the same element type by a key before emitting it and
	// the holder's elements only reach output through that function. This is approximated by: the package contains a
	// function whose body calls sort.Slice / slices.SortFunc on a value of the same slice type.
	ht := holder.Type()
	ok := false
	for _, f := range pk.Syntax {
		if prog.SpecFile[f] || strings.HasSuffix(prog.Fset.Position(f.Pos()).Filename, "_test.go") {
			continue
		}
		for _, d := range f.Decls {
			fd, isFn := d.(*ast.FuncDecl)
			if !isFn || fd.Body == nil {
				continue
			}
			ast.Inspect(fd.Body, func(n ast.Node) bool {
				c, isCall := n.(*ast.CallExpr)
				if !isCall || len(c.Args) < 2 {
					return true
				}
				sel, isSel := c.Fun.(*ast.SelectorExpr)
				if !isSel {
					return true
				}
				fn, isF := info.Uses[sel.Sel].(*types.Func)
				if !isF || fn.Pkg() == nil {
					return true
				}
				full := fn.Pkg().Path() + "." + fn.Name()
				if full != "sort.Slice" && full != "slices.SortFunc" && full != "sort.SliceStable" {
					return true
				}
				if at := info.TypeOf(c.Args[0]); at != nil && types.Identical(at, ht) {
					ok = true
					*consumers = append(*consumers, fd.Name.Name)
				}
				return true
			})
		}
	}
	return ok
}

// buildMapOrderVC generates the order-independence obligation of one map range.
func buildMapOrderVC(prog *Program, site mapRangeSite) (vc *VC, note string, err error) {
	fi := &FuncInfo{Key: site.name, Pkg: site.pk, Decl: site.fd}
	vc = newVC(prog, fi)
	patternHook = vc.patternOK
	defer func() {
		if r := recover(); r != nil {
			if ve, ok := r.(vcError); ok {
				err = fmt.Errorf("%s", ve.msg)
				return
			}
			panic(r)
		}
	}()
	f := &Frame{vc: vc, pk: site.pk, fi: nil, bound: map[types.Object]Term{}, closures: map[types.Object]*ast.FuncLit{}, openWorld: true, spec: true}
	st := &State{env: map[envKey]Term{}, heap: map[string]Term{}, base: &lazyBase{epoch: 0}, pc: True}
	vc.assume(st, app(SBool, ">=", vc.alloc(st), IntLit(1)))
	f.old = st.clone()
	alloc0 := vc.alloc(st)
	rs := site.rs
	// every variable of the enclosing function that the range expression or the body mentions is symbolic
	free := map[types.Object]bool{}
	collect := func(n ast.Node) {
		ast.Inspect(n, func(x ast.Node) bool {
			id, ok := x.(*ast.Ident)
			if !ok {
				return true
			}
			v, ok := site.pk.TypesInfo.Uses[id].(*types.Var)
			if !ok || v.IsField() || v.Pkg() == nil || v.Parent() == v.Pkg().Scope() {
				return true
			}
			if v.Pos() >= rs.Pos() && v.Pos() < rs.End() {
				return true // declared by the loop itself
			}
			free[v] = true
			return true
		})
	}
	collect(rs.X)
	collect(rs.Body)
	var frees []types.Object
	for o := range free {
		frees = append(frees, o)
	}
	sort.Slice(frees, func(i, j int) bool { return frees[i].Pos() < frees[j].Pos() })
	for _, o := range frees {
		v := vc.fresh("v_"+o.Name(), f.sortOf(o.Type()))
		st.env[envKey{o, ""}] = v
		for _, fact := range f.typeFacts(st, v, o.Type()) {
			vc.assume(st, fact)
		}
	}
	mt := f.typeOf(rs.X).Underlying().(*types.Map)
	ks, vs := vc.mapSorts(mt)
	m := vc.define("rangeM", f.expr(st, rs.X))
	k1 := vc.fresh("key1", ks)
	k2 := vc.fresh("key2", ks)
	vc.assume(st, And(Not(Eq(k1, k2)), vc.mapHas(st, m, k1), vc.mapHas(st, m, k2)))
	// outer locals the body assigns, and which of them are append-only accumulators
	targets := f.scanTargets([]ast.Node{rs.Body})
	appendOnly := map[types.Object]bool{}
	for obj := range targets.vars {
		if obj.Pos() >= rs.Pos() && obj.Pos() < rs.End() {
			continue
		}
		appendOnly[obj] = isAppendOnly(site.pk, rs.Body, obj)
	}
	runOnce := func(s0 *State, k Term) *State {
		s := s0.clone()
		bind := func(e ast.Expr, t Term) {
			if e == nil {
				return
			}
			if id, ok := e.(*ast.Ident); ok && id.Name != "_" {
				obj := f.info().Defs[id]
				if obj == nil {
					obj = f.info().Uses[id]
				}
				s.env[envKey{obj, ""}] = t
			}
		}
		bind(rs.Key, k)
		if rs.Value != nil {
			v := Select(Select(vc.mapVal(s, ks, vs), m), k)
			for _, fact := range f.typeFacts(s, v, mt.Elem()) {
				vc.assume(s, fact)
			}
			bind(rs.Value, v)
		}
		outs := f.block(s, rs.Body.List)
		var ends []*State
		for _, o := range outs {
			switch {
			case o.kind == oFall || (o.kind == oCont && o.label == ""):
				ends = append(ends, o.st)
			default:
				vc.fail(rs.Pos(), "the body of a map range leaves the loop early (break / return): the result depends on iteration order")
			}
		}
		return vc.merge(ends)
	}
	s12 := runOnce(runOnce(st, k1), k2)
	s21 := runOnce(runOnce(st, k2), k1)
	if s12 == nil || s21 == nil {
		return vc, "body never completes", nil
	}
	var notes []string
	var conj []Term
	keys := map[string]bool{}
	for k := range s12.heap {
		keys[k] = true
	}
	for k := range s21.heap {
		keys[k] = true
	}
	var ks2 []string
	for k := range keys {
		ks2 = append(ks2, k)
	}
	sort.Strings(ks2)
	for _, k := range ks2 {
		if k == allocKey {
			continue // the number of allocations may differ in name only; objects are compared through what holds them
		}
		srt := vc.heapSort[k]
		a, b := vc.heapGet(s12, k, srt), vc.heapGet(s21, k, srt)
		if a.S == b.S {
			continue
		}
		if strings.HasPrefix(k, "F:") || strings.HasPrefix(k, "Dom:") || strings.HasPrefix(k, "Val:") {
			// objects created by the body get different references in the two orders (allocation order is not
			// observable); what must agree is every object that existed before the loop
			r := Term{"r!", SInt}
			conj = append(conj, Forall([]Term{r}, Imp(And(app(SBool, "<", IntLit(0), r), app(SBool, "<", r, alloc0)), Eq(Select(a, r), Select(b, r)))))
			continue
		}
		conj = append(conj, Eq(a, b))
	}
	for obj := range targets.vars {
		if obj.Pos() >= rs.Pos() && obj.Pos() < rs.End() {
			continue
		}
		a, okA := s12.env[envKey{obj, ""}]
		b, okB := s21.env[envKey{obj, ""}]
		if !okA || !okB || a.S == b.S {
			continue
		}
		if appendOnly[obj] {
			if ok, why := sortedAfter(prog, site, obj); ok {
				notes = append(notes, fmt.Sprintf("%s: append-only accumulator, %s", obj.Name(), why))
				// its LENGTH must still agree
				conj = append(conj, Eq(SLen(a), SLen(b)))
				continue
			}
		}
		conj = append(conj, Eq(a, b))
	}
	goalState := s12.clone()
	goalState.pc = vc.define("pc", And(s12.pc, s21.pc))
	if len(conj) == 0 {
		conj = []Term{True}
		notes = append(notes, "the two orders produce syntactically identical states")
	}
	o := &Obligation{Name: site.name + ".order_independent", Kind: "order", Func: site.name, Pos: vc.posStr(rs.Pos()), ScriptLen: len(vc.script),
		Goal: Imp(goalState.pc, And(conj...)), Text: "body(k1);body(k2) and body(k2);body(k1) end in equal states for distinct keys k1, k2"}
	vc.obls = append(vc.obls, o)
	return vc, strings.Join(notes, "; "), nil
}

// isAppendOnly: every assignment to obj inside body has the form obj = append(obj, ...).
func isAppendOnly(pk *packages.Package, body *ast.BlockStmt, obj types.Object) bool {
	info := pk.TypesInfo
	ok := true
	ast.Inspect(body, func(n ast.Node) bool {
		switch s := n.(type) {
		case *ast.AssignStmt:
			for i, l := range s.Lhs {
				id, isID := ast.Unparen(l).(*ast.Ident)
				if !isID || (info.Uses[id] != obj && info.Defs[id] != obj) {
					continue
				}
				if len(s.Rhs) != len(s.Lhs) {
					ok = false
					continue
				}
				call, isCall := s.Rhs[i].(*ast.CallExpr)
				if !isCall {
					ok = false
					continue
				}
				fid, isF := call.Fun.(*ast.Ident)
				if !isF || fid.Name != "append" || len(call.Args) < 1 {
					ok = false
					continue
				}
				a0, isA := ast.Unparen(call.Args[0]).(*ast.Ident)
				if !isA || info.Uses[a0] != obj {
					ok = false
				}
			}
		case *ast.IncDecStmt:
			if id, isID := ast.Unparen(s.X).(*ast.Ident); isID && info.Uses[id] == obj {
				ok = false
			}
		}
		return true
	})
	return ok
}

// purityScan: syntactic frame of the generator packages (C11): nothing in them may depend on scheduling,
// time, randomness or the environment. Returns the offending sites (empty = clean) and the number of files scanned.
func purityScan(prog *Program, pkgPaths []string) (bad []string, files int) {
	forbiddenImports := map[string]bool{"math/rand": true, "math/rand/v2": true, "crypto/rand": true}
	forbiddenCalls := map[string]bool{"time.Now": true, "time.Since": true, "os.Getenv": true, "os.Environ": true, "os.Getpid": true, "os.Hostname": true, "runtime.NumGoroutine": true, "runtime.GOMAXPROCS": true}
	for _, pp := range pkgPaths {
		pk := prog.Pkgs[pp]
		if pk == nil {
			continue
		}
		for _, f := range pk.Syntax {
			fn := prog.Fset.Position(f.Pos()).Filename
			if strings.HasSuffix(fn, "_test.go") || prog.SpecFile[f] {
				continue
			}
			files++
			for _, is := range f.Imports {
				p := strings.Trim(is.Path.Value, `"`)
				if forbiddenImports[p] {
					bad = append(bad, fmt.Sprintf("%s imports %s", prog.Fset.Position(is.Pos()), p))
				}
			}
			ast.Inspect(f, func(n ast.Node) bool {
				switch x := n.(type) {
				case *ast.GoStmt:
					bad = append(bad, fmt.Sprintf("%s: go statement in generator code", prog.Fset.Position(x.Pos())))
				case *ast.SelectStmt:
					bad = append(bad, fmt.Sprintf("%s: select statement in generator code", prog.Fset.Position(x.Pos())))
				case *ast.SendStmt:
					bad = append(bad, fmt.Sprintf("%s: channel send in generator code", prog.Fset.Position(x.Pos())))
				case *ast.CallExpr:
					if sel, ok := x.Fun.(*ast.SelectorExpr); ok {
						if fnObj, ok := pk.TypesInfo.Uses[sel.Sel].(*types.Func); ok && fnObj.Pkg() != nil {
							if forbiddenCalls[fnObj.Pkg().Path()+"."+fnObj.Name()] {
								bad = append(bad, fmt.Sprintf("%s: call of %s.%s in generator code", prog.Fset.Position(x.Pos()), fnObj.Pkg().Path(), fnObj.Name()))
							}
						}
					}
					// %p / %v of pointers in format strings would leak addresses: look for "%p"
					for _, a := range x.Args {
						if bl, ok := a.(*ast.BasicLit); ok && strings.Contains(bl.Value, "%p") {
							bad = append(bad, fmt.Sprintf("%s: %%p in a format string", prog.Fset.Position(bl.Pos())))
						}
					}
				}
				return true
			})
		}
	}
	return bad, files
}

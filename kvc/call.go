package main

import (
	"fmt"
	"go/ast"
	"go/constant"
	"go/token"
	"go/types"
	"golang.org/x/tools/go/types/typeutil"
	"os"
	"sort"
	"strings"

	"golang.org/x/tools/go/packages"
)

func (f *Frame) call(st *State, call *ast.CallExpr) []Term {
	vc := f.vc
	info := f.info()
	// conversion
	if tv, ok := info.Types[call.Fun]; ok && tv.IsType() {
		if len(call.Args) != 1 {
			vc.fail(call.Pos(), "conversion arity")
		}
		from := f.typeOf(call.Args[0])
		to := f.subst(tv.Type)
		v := f.expr(st, call.Args[0])
		fs, ts := v.Sort, f.sortOf(to)
		if _, isIface := to.Underlying().(*types.Interface); isIface {
			return []Term{f.convert(v, from, to)}
		}
		if fs == ts {
			if b, ok := to.Underlying().(*types.Basic); ok && b.Info()&types.IsUnsigned != 0 {
				if fb, ok := from.Underlying().(*types.Basic); ok && fb.Info()&types.IsUnsigned == 0 {
					// int -> uint of a negative number wraps; integers are mathematical here: demand non-negativity
					f.safe(st, app(SBool, ">=", v, IntLit(0)), "uintconv", call.Pos())
				}
			}
			return []Term{v}
		}
		vc.fail(call.Pos(), "unsupported conversion %s -> %s", from, to)
	}
	// builtins
	if id, ok := ast.Unparen(call.Fun).(*ast.Ident); ok {
		if b, ok := info.Uses[id].(*types.Builtin); ok {
			return f.builtin(st, b.Name(), call)
		}
	}
	// verifspec
	if name := vsCallName(f.pk, call); name != "" {
		return f.vsCall(st, name, call)
	}
	fn := f.callee(call)
	if fn == nil {
		// call through a function value: inlined when the value is a known literal (looked up by its term,
		// so that different branches keep their own literal), uninterpreted otherwise
		return f.funcValueCall(st, call)
	}
	// well-known library models built into the translator
	if r, ok := f.libCall(st, fn, call); ok {
		return r
	}
	sig := fn.Type().(*types.Signature)
	if recv := sig.Recv(); recv != nil {
		if _, isIface := recv.Type().Underlying().(*types.Interface); isIface {
			return f.ifaceCall(st, fn, call)
		}
	}
	fi := vc.prog.funcInfo(fn)
	args, recvT := f.evalArgs(st, fn, call)
	tsub := f.instTsub(fn, call, recvT)
	return f.invoke(st, fi, args, tsub, call.Pos())
}

// evalArgs evaluates receiver and arguments (converted to parameter types).
func (f *Frame) evalArgs(st *State, fn *types.Func, call *ast.CallExpr) ([]Term, types.Type) {
	sig := fn.Type().(*types.Signature)
	var args []Term
	var recvT types.Type
	if sig.Recv() != nil {
		sel := ast.Unparen(call.Fun).(*ast.SelectorExpr)
		recvT = f.typeOf(sel.X)
		var rv Term
		_, ptrRecv := sig.Recv().Type().Underlying().(*types.Pointer)
		_, ptrX := recvT.Underlying().(*types.Pointer)
		if r, ok := f.opaqueVarAddr(st, sel.X); ok && ptrRecv && !ptrX {
			rv = r // x.M() with pointer receiver on an addressable external struct variable: (&x).M()
		} else {
			rv = f.expr(st, sel.X)
		}
		// implicit address-of / deref is not supported for value receivers
		if ptrRecv {
			f.safeRecv(st, rv, fn, call)
		}
		args = append(args, rv)
	}
	n := sig.Params().Len()
	for i, a := range call.Args {
		var pt types.Type
		if sig.Variadic() && i >= n-1 {
			if call.Ellipsis.IsValid() {
				pt = sig.Params().At(n - 1).Type()
			} else {
				// pack the remaining arguments into a slice value
				et := sig.Params().At(n - 1).Type().(*types.Slice).Elem()
				es := f.sortOf(et)
				arr := ConstArray(SInt, es, f.vc.zeroSort(es))
				k := 0
				for _, x := range call.Args[i:] {
					arr = Store(arr, IntLit(int64(k)), f.convert(f.expr(st, x), f.typeOf(x), et))
					k++
				}
				args = append(args, f.vc.define("va", MkSlice(arr, IntLit(int64(k)))))
				return args, recvT
			}
		} else {
			pt = sig.Params().At(i).Type()
		}
		if lit, ok := a.(*ast.FuncLit); ok {
			args = append(args, f.closureValue(st, lit))
			continue
		}
		args = append(args, f.convert(f.expr(st, a), f.typeOf(a), pt))
	}
	if sig.Variadic() && len(call.Args) < n {
		es := f.sortOf(sig.Params().At(n - 1).Type().(*types.Slice).Elem())
		args = append(args, MkSlice(ConstArray(SInt, es, f.vc.zeroSort(es)), IntLit(0)))
	}
	return args, recvT
}

func (f *Frame) safeRecv(st *State, rv Term, fn *types.Func, call *ast.CallExpr) {
	// calling a pointer method on nil is legal Go; the nil dereference (if any) happens in the callee,
	// whose contract must demand non-nilness. Nothing to check here.
}

func (f *Frame) instTsub(fn *types.Func, call *ast.CallExpr, recvT types.Type) map[*types.TypeParam]types.Type {
	sig := fn.Origin().Type().(*types.Signature)
	var tps *types.TypeParamList
	var targs *types.TypeList
	if sig.Recv() != nil && recvT != nil {
		tps = sig.RecvTypeParams()
		t := recvT
		if p, ok := t.Underlying().(*types.Pointer); ok {
			t = p.Elem()
		}
		if p, ok := t.(*types.Pointer); ok {
			t = p.Elem()
		}
		if n, ok := types.Unalias(t).(*types.Named); ok {
			targs = n.TypeArgs()
		}
	} else {
		tps = sig.TypeParams()
		fun := ast.Unparen(call.Fun)
		if ix, ok := fun.(*ast.IndexExpr); ok {
			fun = ix.X
		}
		var id *ast.Ident
		switch x := fun.(type) {
		case *ast.Ident:
			id = x
		case *ast.SelectorExpr:
			id = x.Sel
		}
		if id != nil {
			if inst, ok := f.info().Instances[id]; ok {
				targs = inst.TypeArgs
			}
		}
	}
	if tps == nil || targs == nil || tps.Len() == 0 {
		return f.tsub
	}
	out := map[*types.TypeParam]types.Type{}
	for k, v := range f.tsub {
		out[k] = v
	}
	for i := 0; i < tps.Len() && i < targs.Len(); i++ {
		out[tps.At(i)] = f.subst(targs.At(i))
	}
	return out
}

// invoke dispatches on the callee's kind.
func (f *Frame) invoke(st *State, fi *FuncInfo, args []Term, tsub map[*types.TypeParam]types.Type, pos token.Pos) []Term {
	vc := f.vc
	// while aspect A of a function is verified, a callee that has an aspect-A contract is called through it
	if vc.fi != nil && vc.fi.Aspect != "" && fi.Aspect == "" {
		if a, ok := fi.Aspects[vc.fi.Aspect]; ok && a.Kind == KContract {
			fi = a
		}
	}
	switch fi.Kind {
	case KContract:
		if f.spec && len(f.bound) > 0 && fi.Decl != nil && fi.Decl.Body != nil {
			// a specification under a quantifier denotes the function itself (fresh result constants of a
			// contract call cannot depend on the bound variable): inline the real body
			return f.inline(st, fi.Pkg, fi.Decl, fi, args, tsub, true, pos)
		}
		return f.callByContract(st, fi, args, tsub, pos)
	case KModel:
		md, mp := fi.modelFor(f.pk)
		return f.inline(st, mp, md, nil, args, tsub, true, pos)
	case KSpec:
		if vc.fi != nil && vc.fi.Opaque[fi.Obj.Name()] && fi.Obj.Pkg() == vc.fi.Obj.Pkg() {
			return []Term{f.opaqueCall(st, fi, args, tsub, pos)}
		}
		return f.inline(st, fi.Pkg, fi.Decl, fi, args, tsub, true, pos)
	case KInline:
		if fi.Decl == nil || fi.Decl.Body == nil {
			vc.fail(pos, "inline directive on %s which has no body", fi.Key)
		}
		return f.inline(st, fi.Pkg, fi.Decl, fi, args, tsub, f.spec, pos)
	case KPure:
		return []Term{f.uf(fi, args)}
	}
	if fi.Obj.Pkg() != nil && vc.prog.PurePkgs[fi.Obj.Pkg().Path()] {
		return []Term{f.uf(fi, args)}
	}
	if (f.spec || f.openWorld) && fi.Decl != nil && fi.Decl.Body != nil {
		// spec code (and map-order obligations) may call small real helpers: inline them
		return f.inline(st, fi.Pkg, fi.Decl, fi, args, tsub, true, pos)
	}
	vc.fail(pos, "call to %s: no contract, model, inline or pure directive", fi.Key)
	return nil
}

func (f *Frame) uf(fi *FuncInfo, args []Term) Term {
	vc := f.vc
	sig := fi.Obj.Type().(*types.Signature)
	if sig.Results().Len() != 1 {
		vc.fail(token.NoPos, "pure function %s must have one result", fi.Key)
	}
	rs := f.sortOf(sig.Results().At(0).Type())
	name := "uf_" + mangle(fi.Key)
	if !vc.ufs[name] {
		vc.ufs[name] = true
		var as []string
		for _, a := range args {
			as = append(as, a.Sort)
		}
		// declared at the head of the script so every later query sees it
		vc.funDecls = append(vc.funDecls, fmt.Sprintf("(declare-fun %s (%s) %s)", name, strings.Join(as, " "), rs))
	}
	if len(args) == 0 {
		return Term{"(" + name + ")", rs}
	}
	return app(rs, name, args...)
}

// opaqueCall: an application of a spec function that is kept opaque in the function under verification. The set of
// heap arrays the spec function reads is found once by evaluating its body on a scratch state and recording every
// heap access; the application is then uf(args..., those arrays in the CURRENT state). Sound: the definition is a
// function of exactly these inputs. Spec functions that look at the old state cannot be made opaque.
func (f *Frame) opaqueCall(st *State, fi *FuncInfo, args []Term, tsub map[*types.TypeParam]types.Type, pos token.Pos) Term {
	vc := f.vc
	if vc.opaqueReads == nil {
		vc.opaqueReads = map[*FuncInfo][]string{}
	}
	keys, ok := vc.opaqueReads[fi]
	if !ok {
		if vc.recordReads != nil {
			vc.fail(pos, "nested opaque spec functions (%s)", fi.Key)
		}
		rec := map[string]bool{}
		tmp := st.clone()
		vc.recordID++
		tmp.rec = vc.recordID
		vc.recordReads, vc.recordOther = rec, false
		saveBound := f.bound
		f.inline(tmp, fi.Pkg, fi.Decl, fi, args, tsub, true, pos)
		f.bound = saveBound
		vc.recordReads = nil
		if vc.recordOther {
			vc.fail(pos, "spec function %s reads the old state and cannot be opaque", fi.Key)
		}
		usesAlloc := vc.prog.mentionsAllocation(fi.Pkg, fi.Decl, map[*ast.FuncDecl]bool{})
		for k := range rec {
			if k == allocKey && !usesAlloc {
				continue // only the well-formedness FACTS attached to reads looked at the allocation mark, not the value
			}
			keys = append(keys, k)
		}
		sort.Strings(keys)
		vc.opaqueReads[fi] = keys
	}
	sig := fi.Obj.Type().(*types.Signature)
	if sig.Results().Len() != 1 {
		vc.fail(pos, "opaque spec function %s must have one result", fi.Key)
	}
	rs := f.sortOf(sig.Results().At(0).Type())
	all := append([]Term{}, args...)
	for _, k := range keys {
		all = append(all, vc.heapGet(st, k, vc.heapSort[k]))
	}
	name := "opq_" + mangle(fi.Key)
	if !vc.ufs[name] {
		vc.ufs[name] = true
		var as []string
		for _, a := range all {
			as = append(as, a.Sort)
		}
		vc.funDecls = append(vc.funDecls, fmt.Sprintf("(declare-fun %s (%s) %s)", name, strings.Join(as, " "), rs))
		vc.dropped["spec function "+fi.Obj.Name()+" kept opaque here (uninterpreted function of its arguments and the heap it reads)"]++
	}
	return app(rs, name, all...)
}

// mentionsAllocation: the spec function (or one it calls) uses an allocation-sensitive primitive.
func (p *Program) mentionsAllocation(pk *packages.Package, decl *ast.FuncDecl, seen map[*ast.FuncDecl]bool) bool {
	if decl == nil || decl.Body == nil || seen[decl] {
		return false
	}
	seen[decl] = true
	found := false
	ast.Inspect(decl.Body, func(n ast.Node) bool {
		call, ok := n.(*ast.CallExpr)
		if !ok || found {
			return !found
		}
		switch vsCallName(pk, call) {
		case "IsAllocated", "ForallPtr", "ExistsPtr", "ForallOldPtr", "ForallOldMap":
			found = true
			return false
		}
		if fn := typeutil.StaticCallee(pk.TypesInfo, call); fn != nil {
			if cfi := p.Funcs[fn.Origin()]; cfi != nil && cfi.Kind == KSpec && cfi.Decl != nil {
				if p.mentionsAllocation(cfi.Pkg, cfi.Decl, seen) {
					found = true
					return false
				}
			}
		}
		return true
	})
	return found
}

// ------------------------------------------------------------ contracts

func (f *Frame) specFrame(sp *Spec, env map[envKey]Term, old *State, tsub map[*types.TypeParam]types.Type) *Frame {
	return &Frame{vc: f.vc, pk: sp.Pkg, spec: true, old: old, specEnv: env, tsub: tsub, bound: map[types.Object]Term{}, depth: f.depth + 1}
}

func bindSpec(sp *Spec, args, results []Term) map[envKey]Term {
	env := map[envKey]Term{}
	for i, p := range sp.Params {
		if i < len(args) {
			env[envKey{p, ""}] = args[i]
		}
	}
	for i, r := range sp.Results {
		if i < len(results) {
			env[envKey{r, ""}] = results[i]
		}
	}
	return env
}

func (f *Frame) callByContract(st *State, fi *FuncInfo, args []Term, tsub map[*types.TypeParam]types.Type, pos token.Pos) []Term {
	vc := f.vc
	sp := fi.Spec
	if len(f.bound) > 0 {
		vc.fail(pos, "call of %s by contract under a quantifier is not supported", fi.Key)
	}
	vc.callN[fi.Key]++
	if vc.usedContracts == nil {
		vc.usedContracts = map[string]bool{}
	}
	vc.usedContracts[fi.Key] = true
	site := fmt.Sprintf("call.%s#%d", fi.Key, vc.callN[fi.Key])
	if !f.spec && f.guard.S != "" && f.guard.S != "true" && os.Getenv("KVC_GUARDLOG") != "" {
		fmt.Fprintf(os.Stderr, "GUARDED-CONTRACT-CALL %s in %s at %s\n", fi.Key, vc.fi.Key, vc.posStr(pos))
	}
	pre := st.clone()
	env := bindSpec(sp, args, nil)
	sf := f.specFrame(sp, env, pre, tsub)
	for _, c := range sp.Requires {
		cond := sf.expr(st, c.Expr)
		if !f.spec {
			if f.guard.S != "" && f.guard.S != "true" {
				// the call sits in the right operand of && / ||: it is only made (and its precondition only
				// owed) when the left operand lets evaluation continue
				cond = Imp(f.guard, cond)
			}
			vc.oblige(st, site+"."+c.Label, "pre", cond, pos, vc.srcText(sp.Pkg, c.Expr))
		}
	}
	// havoc what the callee may modify
	if !f.spec && f.guard.S != "" && f.guard.S != "true" && (sp.ModAll || len(sp.Modifies) > 0 || sp.Allocs || sp.Effect) {
		// its effects and postconditions would have to be conditional on the guard; only effect-free callees
		// (whose postconditions relate the result to the unchanged state) are accepted in this position
		vc.fail(pos, "call of %s (a contract with effects) inside a short-circuit operand is outside the subset", fi.Key)
	}
	if sp.ModAll {
		vc.havocAll(st)
		defer f.assumeTypeInvs(st, pos) // after the postconditions: encapsulated invariants survive arbitrary callees
	} else {
		for _, m := range sp.Modifies {
			f.havocModifies(st, pre, sf, m)
		}
		if sp.Allocs {
			vc.havocAlloc(st)
		}
	}
	sig := fi.Obj.Type().(*types.Signature)
	var results []Term
	rf := &Frame{vc: vc, pk: sp.Pkg, tsub: tsub}
	for i := 0; i < sig.Results().Len(); i++ {
		rt := rf.subst(sig.Results().At(i).Type())
		r := vc.fresh("ret_"+fi.Obj.Name(), rf.sortOf(rt))
		for _, fact := range f.typeFacts(st, r, rt) {
			vc.assume(st, fact)
		}
		results = append(results, r)
	}
	env = bindSpec(sp, args, results)
	sf = f.specFrame(sp, env, pre, tsub)
	for _, c := range sp.Ensures {
		if strings.HasPrefix(c.Label, "q_") {
			// a "quiet" postcondition: proved for the callee, not handed to its callers (used for clauses whose
			// quantifier alternation would set up matching loops in every caller's context)
			continue
		}
		vc.assume(st, sf.expr(st, c.Expr))
	}
	if sp.Effect {
		f.checkMonitors(st, site, pos)
	}
	return results
}

// assumeTypeInvs assumes every declared type invariant in state st. The syntactic encapsulation argument that
// justifies this is re-checked on every load; a breach becomes a failed obligation of the function that relies on it.
func (f *Frame) assumeTypeInvs(st *State, pos token.Pos) {
	vc := f.vc
	if f.spec || vc.fi == nil || vc.fi.Spec == nil || !vc.fi.Spec.UsesTypeInv {
		return
	}
	for _, ti := range vc.prog.TypeInvs {
		if vc.fi == nil || ti.Pkg.PkgPath != vc.fi.Pkg.PkgPath {
			continue // the type is encapsulated in its own package
		}
		af := &Frame{vc: vc, pk: ti.Pkg, spec: true, bound: map[types.Object]Term{}, closures: map[types.Object]*ast.FuncLit{}}
		rs := af.inline(st, ti.Pkg, ti.Decl, nil, nil, nil, true, ti.Decl.Pos())
		if len(rs) == 1 {
			vc.assume(st, rs[0])
		}
		name := "typeinv." + ti.Type.Obj().Name() + "/state_changed_only_by_its_methods"
		if !vc.typeInvChecked[name] {
			if vc.typeInvChecked == nil {
				vc.typeInvChecked = map[string]bool{}
			}
			vc.typeInvChecked[name] = true
			goal, text := True, "encapsulation of "+ti.Type.Obj().Name()+": fields written only by its methods and constructors (syntactic scan)"
			if len(ti.Breaches) > 0 {
				goal, text = False, strings.Join(ti.Breaches, "; ")
			}
			vc.obls = append(vc.obls, &Obligation{Name: vc.fi.Key + "/" + name, Kind: "assert", Func: vc.fi.Key, Pos: vc.posStr(pos), ScriptLen: 0, Goal: goal, Text: text})
		}
	}
}

// havocModifies havocs one modifies entry m (evaluated in the pre-state).
func (f *Frame) havocModifies(st, pre *State, sf *Frame, m ast.Expr) {
	vc := f.vc
	if call, ok := m.(*ast.CallExpr); ok {
		switch vsCallName(sf.pk, call) {
		case "FieldOfAll": // every object's field
			l := sf.loc(pre.clone(), call.Args[0])
			if l.kind != locField {
				vc.fail(m.Pos(), "FieldOfAll needs a field selector")
			}
			srt := ArraySort(SInt, sf.sortOf(l.typ))
			vc.heapGet(st, l.key, srt)
			vc.heapSet(st, l.key, vc.fresh("hv", srt))
			return
		case "AllMaps": // every map of this type
			t := sf.typeOf(call.Args[0])
			ks, vs := vc.mapSorts(t)
			vc.heapSet(st, domKey(ks), vc.fresh("hv", ArraySort(SInt, ArraySort(ks, SBool))))
			vc.heapSet(st, valKey(ks, vs), vc.fresh("hv", ArraySort(SInt, ArraySort(ks, vs))))
			return
		}
	}
	t := sf.typeOf(m)
	if gv, ok := sf.ghostMapVar(m); ok {
		ks, vs := vc.mapSorts(t)
		vc.heapSet(st, ghostMapKey(gv), vc.fresh("hvgm", ArraySort(ks, vs)))
		return
	}
	if _, isMap := t.Underlying().(*types.Map); isMap {
		ref := sf.expr(pre.clone(), m)
		ks, vs := vc.mapSorts(t)
		dom := vc.mapDom(st, ks)
		val := vc.mapVal(st, ks, vs)
		vc.heapSet(st, domKey(ks), vc.define("dom", Store(dom, ref, vc.fresh("hvrow", ArraySort(ks, SBool)))))
		vc.heapSet(st, valKey(ks, vs), vc.define("val", Store(val, ref, vc.fresh("hvrow", ArraySort(ks, vs)))))
		return
	}
	l := sf.loc(pre.clone(), m)
	switch l.kind {
	case locField:
		srt := sf.sortOf(l.typ)
		h := vc.heapGet(st, l.key, ArraySort(SInt, srt))
		nv := vc.fresh("hv", srt)
		for _, fact := range f.typeFacts(st, nv, l.typ) {
			vc.assume(st, fact)
		}
		vc.heapSet(st, l.key, vc.define("h", Store(h, l.ref, nv)))
	case locGlobal:
		nv := vc.fresh("hv", sf.sortOf(l.typ))
		for _, fact := range f.typeFacts(st, nv, l.typ) {
			vc.assume(st, fact)
		}
		vc.heapSet(st, l.key, nv)
	default:
		vc.fail(m.Pos(), "unsupported modifies entry")
	}
}

// modifiesSets returns, per heap key, the references whose entry may change (nil slice = whole key).
type modSet struct {
	whole bool
	refs  []Term
}

func (f *Frame) modifiesSets(sp *Spec, sf *Frame, pre *State) map[string]*modSet {
	vc := f.vc
	out := map[string]*modSet{}
	add := func(key string, ref *Term) {
		ms := out[key]
		if ms == nil {
			ms = &modSet{}
			out[key] = ms
		}
		if ref == nil {
			ms.whole = true
		} else {
			ms.refs = append(ms.refs, *ref)
		}
	}
	for _, m := range sp.Modifies {
		if call, ok := m.(*ast.CallExpr); ok {
			switch vsCallName(sf.pk, call) {
			case "FieldOfAll":
				l := sf.loc(pre.clone(), call.Args[0])
				add(l.key, nil)
				continue
			case "AllMaps":
				ks, vs := vc.mapSorts(sf.typeOf(call.Args[0]))
				add(domKey(ks), nil)
				add(valKey(ks, vs), nil)
				continue
			}
		}
		t := sf.typeOf(m)
		if gv, ok := sf.ghostMapVar(m); ok {
			add(ghostMapKey(gv), nil)
			continue
		}
		if _, isMap := t.Underlying().(*types.Map); isMap {
			ref := sf.expr(pre.clone(), m)
			ks, vs := vc.mapSorts(t)
			add(domKey(ks), &ref)
			add(valKey(ks, vs), &ref)
			continue
		}
		l := sf.loc(pre.clone(), m)
		switch l.kind {
		case locField:
			add(l.key, &l.ref)
		case locGlobal:
			add(l.key, nil)
		}
	}
	return out
}

// ------------------------------------------------------------ inlining

func (f *Frame) inline(st *State, cpk *packages.Package, decl *ast.FuncDecl, fi *FuncInfo, args []Term, tsub map[*types.TypeParam]types.Type, spec bool, pos token.Pos) []Term {
	vc := f.vc
	if f.depth > 40 {
		vc.fail(pos, "inlining depth exceeded (recursive spec function?)")
	}
	nf := &Frame{vc: vc, pk: cpk, fi: fi, old: f.old, spec: spec, tsub: tsub, bound: f.bound, specEnv: f.specEnv,
		depth: f.depth + 1, inOld: f.inOld, monitors: f.monitors, closures: map[types.Object]*ast.FuncLit{}, guard: f.guard, openWorld: f.openWorld}
	params := funcParams(cpk, decl)
	nf.results = funcResults(cpk, decl)
	saved := map[envKey]Term{}
	had := map[envKey]bool{}
	for i, p := range params {
		k := envKey{p, ""}
		if v, ok := st.env[k]; ok {
			saved[k], had[k] = v, true
		}
		if i < len(args) {
			st.env[k] = args[i]
		}
	}
	for _, r := range nf.results {
		if r.Name() != "" && r.Name() != "_" {
			st.env[envKey{r, ""}] = vc.zero(nf.subst(r.Type()))
		}
	}
	outs := nf.block(st.clone(), decl.Body.List)
	var rets []*State
	var vals [][]Term
	for _, o := range outs {
		switch o.kind {
		case oRet:
			rets = append(rets, o.st)
			vals = append(vals, o.vals)
		case oFall:
			if len(nf.results) > 0 {
				vc.fail(decl.Pos(), "inlined function falls off its end")
			}
			rets = append(rets, o.st)
			vals = append(vals, nil)
		default:
			vc.fail(decl.Pos(), "stray break/continue in inlined function")
		}
	}
	if len(rets) == 0 {
		// no path returns: the call site is unreachable from here on
		st.pc = False
		var zs []Term
		for _, r := range nf.results {
			zs = append(zs, vc.zero(nf.subst(r.Type())))
		}
		return zs
	}
	// merge result values along with states
	nres := len(nf.results)
	results := make([]Term, nres)
	acc := rets[0]
	copy(results, vals[0])
	for i := 1; i < len(rets); i++ {
		c := acc.pc
		for j := 0; j < nres; j++ {
			results[j] = vc.define("res", Ite(c, results[j], vals[i][j]))
		}
		acc = vc.merge2(acc, rets[i])
	}
	// restore caller's bindings of the callee's parameter objects (recursion-free, so only hygiene)
	for k := range acc.env {
		if _, isParam := saved[k]; isParam {
			acc.env[k] = saved[k]
		}
	}
	*st = *acc
	return results
}

func (f *Frame) inlineLit(st *State, lit *ast.FuncLit, call *ast.CallExpr) []Term {
	sig := f.typeOf(lit).(*types.Signature)
	var argv []Term
	for i, a := range call.Args {
		argv = append(argv, f.convert(f.expr(st, a), f.typeOf(a), sig.Params().At(i).Type()))
	}
	return f.inlineLitArgs(st, lit, argv)
}

func (f *Frame) inlineLitArgs(st *State, lit *ast.FuncLit, argv []Term) []Term {
	vc := f.vc
	sig := f.typeOf(lit).(*types.Signature)
	nf := &Frame{vc: vc, pk: f.pk, fi: f.fi, old: f.old, spec: f.spec, tsub: f.tsub, bound: f.bound, specEnv: f.specEnv,
		depth: f.depth + 1, monitors: f.monitors, closures: f.closures}
	i := 0
	for _, fld := range lit.Type.Params.List {
		for _, nm := range fld.Names {
			obj := f.info().Defs[nm]
			if nm.Name != "_" && obj != nil {
				st.env[envKey{obj, ""}] = argv[i]
			}
			i++
		}
	}
	for j := 0; j < sig.Results().Len(); j++ {
		nf.results = append(nf.results, sig.Results().At(j))
	}
	outs := nf.block(st.clone(), lit.Body.List)
	var rets []*State
	var vals [][]Term
	for _, o := range outs {
		if o.kind == oRet || o.kind == oFall {
			rets = append(rets, o.st)
			vals = append(vals, o.vals)
		}
	}
	if len(rets) == 0 {
		st.pc = False
		return nil
	}
	nres := sig.Results().Len()
	results := make([]Term, nres)
	acc := rets[0]
	copy(results, vals[0])
	for k := 1; k < len(rets); k++ {
		c := acc.pc
		for j := 0; j < nres; j++ {
			results[j] = vc.define("res", Ite(c, results[j], vals[k][j]))
		}
		acc = vc.merge2(acc, rets[k])
	}
	*st = *acc
	return results
}

// ------------------------------------------------------------ builtins

func (f *Frame) builtin(st *State, name string, call *ast.CallExpr) []Term {
	vc := f.vc
	switch name {
	case "len":
		x := f.expr(st, call.Args[0])
		switch {
		case x.Sort == SString:
			return []Term{app(SInt, "str.len", x)}
		case isSliceSort(x.Sort):
			return []Term{SLen(x)}
		case x.Sort == SInt: // map
			t := f.typeOf(call.Args[0])
			ks, _ := vc.mapSorts(t)
			name := "maplen_" + mangle(ks)
			if !vc.ufs[name] {
				vc.ufs[name] = true
				vc.funDecls = append(vc.funDecls, fmt.Sprintf("(declare-fun %s (%s) Int)", name, ArraySort(ks, SBool)))
			}
			l := app(SInt, name, Select(vc.mapDom(st, ks), x))
			vc.assume(st, app(SBool, ">=", l, IntLit(0)))
			return []Term{l}
		}
	case "cap":
		x := f.expr(st, call.Args[0])
		c := vc.fresh("cap", SInt)
		vc.assume(st, app(SBool, ">=", c, SLen(x)))
		return []Term{c}
	case "append":
		return []Term{f.appendTerm(st, call)}
	case "make":
		t := f.typeOf(call.Args[0])
		switch u := t.Underlying().(type) {
		case *types.Map:
			ks, vs := vc.mapSorts(u)
			for _, a := range call.Args[1:] {
				f.expr(st, a)
			}
			return []Term{vc.newMapT(st, ks, vs, t)}
		case *types.Slice:
			n := f.expr(st, call.Args[1])
			f.safe(st, app(SBool, ">=", n, IntLit(0)), "makelen", call.Pos())
			if len(call.Args) > 2 {
				c := f.expr(st, call.Args[2])
				f.safe(st, app(SBool, ">=", c, n), "makecap", call.Pos())
			}
			es := f.sortOf(u.Elem())
			return []Term{vc.define("mk", MkSlice(ConstArray(SInt, es, vc.zeroSort(es)), n))}
		}
	case "delete":
		m := f.expr(st, call.Args[0])
		mt := f.typeOf(call.Args[0]).Underlying().(*types.Map)
		k := f.convert(f.expr(st, call.Args[1]), f.typeOf(call.Args[1]), mt.Key())
		vc.mapDelete(st, m, k)
		return nil
	case "min", "max":
		a := f.expr(st, call.Args[0])
		for _, x := range call.Args[1:] {
			b := f.expr(st, x)
			if name == "min" {
				a = Ite(app(SBool, "<=", a, b), a, b)
			} else {
				a = Ite(app(SBool, ">=", a, b), a, b)
			}
		}
		return []Term{a}
	case "panic":
		f.safe(st, False, "panic", call.Pos())
		st.pc = False
		return nil
	case "new":
		t := f.typeOf(call.Args[0])
		if stt, ok := t.Underlying().(*types.Struct); ok {
			r := vc.newRefT(st, "new", types.NewPointer(t))
			f.initStructFields(st, r, structName(t), stt, nil, nil)
			return []Term{r}
		}
	}
	vc.fail(call.Pos(), "unsupported builtin %s", name)
	return nil
}

// ------------------------------------------------------------ verifspec

func (f *Frame) quantifier(st *State, call *ast.CallExpr, litArg int, exists bool, domain func(vars []Term) Term) Term {
	vc := f.vc
	lit, ok := call.Args[litArg].(*ast.FuncLit)
	if !ok {
		vc.fail(call.Pos(), "quantifier body must be a function literal")
	}
	var vars []Term
	saved := map[types.Object]Term{}
	var objs []types.Object
	for _, fld := range lit.Type.Params.List {
		for _, nm := range fld.Names {
			obj := f.info().Defs[nm]
			vc.n++
			v := Term{fmt.Sprintf("%s?%d", mangle(nm.Name), vc.n), f.sortOf(obj.Type())}
			vars = append(vars, v)
			if old, ok := f.bound[obj]; ok {
				saved[obj] = old
			}
			f.bound[obj] = v
			objs = append(objs, obj)
		}
	}
	vc.quantDepth++
	body := f.pureBody(st, lit)
	vc.quantDepth--
	for _, o := range objs {
		if old, ok := saved[o]; ok {
			f.bound[o] = old
		} else {
			delete(f.bound, o)
		}
	}
	dom := True
	if domain != nil {
		dom = domain(vars)
	}
	if exists {
		return Exists(vars, And(dom, body))
	}
	return Forall(vars, Imp(dom, body))
}

// litParamTypes: the (pointer) types of a quantifier body's bound variables.
func (f *Frame) litParamTypes(e ast.Expr) []types.Type {
	lit, ok := e.(*ast.FuncLit)
	if !ok {
		return nil
	}
	var out []types.Type
	for _, fld := range lit.Type.Params.List {
		for _, nm := range fld.Names {
			out = append(out, f.subst(f.info().Defs[nm].Type()))
		}
	}
	return out
}

// pureBody evaluates a function literal consisting of pure statements ending in return.
func (f *Frame) pureBody(st *State, lit *ast.FuncLit) Term {
	vc := f.vc
	nf := *f
	nf.spec = true
	sig := f.typeOf(lit).(*types.Signature)
	nf.results = nil
	for j := 0; j < sig.Results().Len(); j++ {
		nf.results = append(nf.results, sig.Results().At(j))
	}
	outs := nf.block(st.clone(), lit.Body.List)
	var res *Term
	var accPc Term
	for _, o := range outs {
		if o.kind != oRet || len(o.vals) != 1 {
			vc.fail(lit.Pos(), "quantifier body must return one value on every path")
		}
		if res == nil {
			v := o.vals[0]
			res = &v
			accPc = o.st.pc
		} else {
			v := Ite(accPc, *res, o.vals[0])
			res = &v
			accPc = Or(accPc, o.st.pc)
		}
	}
	if res == nil {
		vc.fail(lit.Pos(), "quantifier body does not return")
	}
	return *res
}

func (f *Frame) vsCall(st *State, name string, call *ast.CallExpr) []Term {
	vc := f.vc
	switch name {
	case "Old":
		if f.old == nil {
			vc.fail(call.Pos(), "Old() outside a two-state context")
		}
		nf := *f
		nf.inOld = true
		nf.spec = true
		os := f.old.clone()
		// bound variables, spec parameters and locals declared since keep their meaning; the heap (and the
		// values of the function's own parameters) are the old ones
		for k, v := range st.env {
			if _, ok := os.env[k]; !ok {
				os.env[k] = v
			}
		}
		return []Term{nf.expr(os, call.Args[0])}
	case "Implies":
		return []Term{Imp(f.expr(st, call.Args[0]), f.expr(st, call.Args[1]))}
	case "Iff":
		return []Term{Eq(f.expr(st, call.Args[0]), f.expr(st, call.Args[1]))}
	case "Forall", "Exists":
		n := f.expr(st, call.Args[0])
		return []Term{f.quantifier(st, call, 1, name == "Exists", func(vs []Term) Term {
			return And(app(SBool, "<=", IntLit(0), vs[0]), app(SBool, "<", vs[0], n))
		})}
	case "ForallRange", "ExistsRange":
		lo := f.expr(st, call.Args[0])
		hi := f.expr(st, call.Args[1])
		return []Term{f.quantifier(st, call, 2, name == "ExistsRange", func(vs []Term) Term {
			return And(app(SBool, "<=", lo, vs[0]), app(SBool, "<", vs[0], hi))
		})}
	case "ForallInt", "ForallString", "ForallInt2", "ForallRef", "ForallValue":
		return []Term{f.quantifier(st, call, 0, false, nil)}
	case "ExistsInt", "ExistsString":
		return []Term{f.quantifier(st, call, 0, true, nil)}
	case "ForallOldPtr", "ForallOldMap":
		if f.old == nil {
			vc.fail(call.Pos(), "ForallOldPtr outside a two-state context")
		}
		pts := f.litParamTypes(call.Args[0])
		return []Term{f.quantifier(st, call, 0, false, func(vs []Term) Term {
			var cs []Term
			for i, v := range vs {
				cs = append(cs, vc.isAlloc(f.old, v))
				if i < len(pts) {
					cs = append(cs, vc.hasType(v, pts[i]))
				}
			}
			return And(cs...)
		})}
	case "ForallPtr", "ExistsPtr":
		pts := f.litParamTypes(call.Args[0])
		return []Term{f.quantifier(st, call, 0, name == "ExistsPtr", func(vs []Term) Term {
			var cs []Term
			for i, v := range vs {
				cs = append(cs, vc.isAlloc(st, v))
				if i < len(pts) {
					cs = append(cs, vc.hasType(v, pts[i]))
				}
			}
			return And(cs...)
		})}
	case "SameFunc", "SameMap":
		return []Term{Eq(f.expr(st, call.Args[0]), f.expr(st, call.Args[1]))}
	case "SameBytes", "SameSlice":
		return []Term{Eq(f.expr(st, call.Args[0]), f.expr(st, call.Args[1]))}
	case "ForallString2", "ForallString3":
		return []Term{f.quantifier(st, call, 0, false, nil)}
	case "Has":
		m := f.expr(st, call.Args[0])
		mt := f.typeOf(call.Args[0]).Underlying().(*types.Map)
		k := f.convert(f.expr(st, call.Args[1]), f.typeOf(call.Args[1]), mt.Key())
		return []Term{vc.mapHas(st, m, k)}
	case "Assert":
		cond := f.expr(st, call.Args[1])
		vc.oblige(st, "assert."+stringConst(f.pk, call.Args[0]), "assert", cond, call.Pos(), vc.srcText(f.pk, call.Args[1]))
		return nil
	case "Assume":
		vc.dropped["vs.Assume (inside trusted models / ghost code)"]++
		vc.assume(st, f.expr(st, call.Args[0]))
		return nil
	case "NondetBool":
		return []Term{vc.fresh("nd", SBool)}
	case "NondetInt":
		return []Term{vc.fresh("nd", SInt)}
	case "NondetString":
		return []Term{vc.fresh("nd", SString)}
	case "SomeError":
		e := vc.fresh("err", SIface)
		vc.assume(st, Not(Eq(e, NilIface())))
		return []Term{e}
	case "YieldSeq":
		// YieldSeq(it): the sequence the iterator function `it` yields
		sig, ok := f.typeOf(call.Args[0]).Underlying().(*types.Signature)
		if !ok || f.iterElemType(sig) == nil {
			vc.fail(call.Pos(), "YieldSeq wants a func(yield func(T) bool)")
		}
		return []Term{f.yieldSeq(f.expr(st, call.Args[0]), f.iterElemType(sig))}
	case "IsAllocated":
		// IsAllocated(p): p is a live object of its static (pointer / map) type
		v := f.expr(st, call.Args[0])
		at := types.Unalias(f.typeOf(call.Args[0]))
		switch at.Underlying().(type) {
		case *types.Pointer, *types.Map:
			return []Term{And(vc.isAlloc(st, v), vc.hasType(v, at))}
		case *types.Interface:
			// an interface value holding a live object (not nil, not a typed nil pointer)
			return []Term{vc.isAlloc(st, IRef(v))}
		}
		return []Term{vc.isAlloc(st, v)}
	case "Itoa":
		return []Term{itoa(f.expr(st, call.Args[0]))}
	case "StrPrefixOf":
		return []Term{app(SBool, "str.prefixof", f.expr(st, call.Args[0]), f.expr(st, call.Args[1]))}
	case "StrContains":
		return []Term{app(SBool, "str.contains", f.expr(st, call.Args[0]), f.expr(st, call.Args[1]))}
	case "TypeIs":
		// TypeIs[T](x): dynamic type of interface value x is T
		x := f.expr(st, call.Args[0])
		var t types.Type
		if ix, ok := call.Fun.(*ast.IndexExpr); ok {
			t = f.typeOf(ix.Index)
		} else {
			vc.fail(call.Pos(), "TypeIs needs an explicit type argument")
		}
		return []Term{Eq(ITag(x), IntLit(int64(vc.tagOf(t))))}
	case "As":
		x := f.expr(st, call.Args[0])
		return []Term{IRef(x)}
	case "CrashPoint":
		f.checkMonitors(st, "crash."+stringConst(f.pk, call.Args[0]), call.Pos())
		return nil
	case "Requires", "Ensures", "Modifies", "ModifiesAll", "Allocates", "Invariant", "Effect", "Monitor", "Decreases", "Witness", "TypeInvariants":
		return nil
	}
	vc.fail(call.Pos(), "unknown verifspec function %s", name)
	return nil
}

func itoa(n Term) Term {
	return Ite(app(SBool, ">=", n, IntLit(0)), app(SString, "str.from_int", n),
		app(SString, "str.++", StrLit("-"), app(SString, "str.from_int", app(SInt, "-", n))))
}

// checkMonitors asserts every active monitor (crash-consistency style invariants).
func (f *Frame) checkMonitors(st *State, site string, pos token.Pos) {
	vc := f.vc
	for _, m := range f.monitors {
		mf := &Frame{vc: vc, pk: m.pk, spec: true, old: f.old, specEnv: m.env, bound: map[types.Object]Term{}}
		cond := mf.expr(st, m.expr)
		vc.obligeOnly(st, "monitor."+m.label+"@"+site, "monitor", cond, pos, m.label)
	}
}

// ------------------------------------------------------------ library models built into kvc

func (f *Frame) libCall(st *State, fn *types.Func, call *ast.CallExpr) ([]Term, bool) {
	vc := f.vc
	if fn.Pkg() == nil {
		if fn.Name() == "Error" { // error.Error(): text is dropped
			f.expr(st, ast.Unparen(call.Fun).(*ast.SelectorExpr).X)
			return []Term{vc.fresh("errtext", SString)}, true
		}
		return nil, false
	}
	full := fn.Pkg().Path() + "." + fn.Name()
	if fi := vc.prog.Funcs[fn.Origin()]; fi != nil && fi.Kind != KNone {
		return nil, false // an explicit directive wins
	}
	switch full {
	case "fmt.Sprintf":
		return []Term{f.sprintf(st, call)}, true
	case "fmt.Errorf", "errors.New":
		for _, a := range call.Args[1:] {
			f.exprAny(st, a)
		}
		vc.dropped["error text (fmt.Errorf/errors.New)"]++
		e := vc.fresh("err", SIface)
		vc.assume(st, Not(Eq(e, NilIface())))
		return []Term{e}, true
	case "go/ast.NewIdent":
		name := f.expr(st, call.Args[0])
		r := vc.newRefT(st, "ident", f.typeOf(call))
		key := fieldKey("ast.Ident", "Name")
		h := vc.heapGet(st, key, ArraySort(SInt, SString))
		vc.heapSet(st, key, vc.define("h", Store(h, r, name)))
		return []Term{r}, true
	case "maps.Clone":
		m := f.expr(st, call.Args[0])
		ks, vs := vc.mapSorts(f.typeOf(call.Args[0]))
		r := vc.newRefT(st, "clone", f.typeOf(call.Args[0]))
		dom := vc.mapDom(st, ks)
		val := vc.mapVal(st, ks, vs)
		vc.heapSet(st, domKey(ks), vc.define("dom", Store(dom, r, Select(dom, m))))
		vc.heapSet(st, valKey(ks, vs), vc.define("val", Store(val, r, Select(val, m))))
		return []Term{Ite(Eq(m, IntLit(0)), IntLit(0), r)}, true
	case "slices.Clone":
		// slices are values in kvc's model (array and length): a clone is the same value; nil stays nil
		return []Term{f.expr(st, call.Args[0])}, true
	case "slices.Contains":
		s := f.expr(st, call.Args[0])
		v := f.expr(st, call.Args[1])
		r := vc.fresh("contains", SBool)
		i := Term{"i!", SInt}
		ex := Exists([]Term{i}, And(app(SBool, "<=", IntLit(0), i), app(SBool, "<", i, SLen(s)), Eq(Select(SArr(s), i), v)))
		vc.assumeGlobal(Eq(r, ex))
		return []Term{r}, true
	case "strconv.Quote":
		s := f.expr(st, call.Args[0])
		return []Term{vc.ufApp("strconv_Quote", SString, s)}, true
	case "strings.Compare":
		a, b := f.expr(st, call.Args[0]), f.expr(st, call.Args[1])
		return []Term{Ite(Eq(a, b), IntLit(0), Ite(app(SBool, "str.<", a, b), IntLit(-1), IntLit(1)))}, true
	case "strings.HasPrefix":
		return []Term{app(SBool, "str.prefixof", f.expr(st, call.Args[1]), f.expr(st, call.Args[0]))}, true
	case "strings.HasSuffix":
		return []Term{app(SBool, "str.suffixof", f.expr(st, call.Args[1]), f.expr(st, call.Args[0]))}, true
	}
	if fn.Pkg().Path() == "log/slog" {
		for _, a := range call.Args {
			f.exprAny(st, a)
		}
		vc.dropped["slog.* calls"]++
		return nil, true
	}
	return nil, false
}

func (vc *VC) ufApp(name, rs string, args ...Term) Term {
	if !vc.ufs[name] {
		vc.ufs[name] = true
		var as []string
		for _, a := range args {
			as = append(as, a.Sort)
		}
		vc.funDecls = append(vc.funDecls, fmt.Sprintf("(declare-fun %s (%s) %s)", name, strings.Join(as, " "), rs))
	}
	return app(rs, name, args...)
}

// exprAny evaluates an argument passed as `any` (logging, error formatting): only its safety matters.
func (f *Frame) exprAny(st *State, e ast.Expr) {
	defer func() {
		if r := recover(); r != nil {
			if _, ok := r.(vcError); !ok {
				panic(r)
			}
		}
	}()
	t := f.info().TypeOf(e)
	if t != nil && isStructValue(t) {
		return
	}
	f.expr(st, e)
}

func (f *Frame) sprintf(st *State, call *ast.CallExpr) Term {
	vc := f.vc
	tv := f.info().Types[call.Args[0]]
	if tv.Value == nil || tv.Value.Kind() != constant.String {
		vc.fail(call.Pos(), "Sprintf with non-constant format")
	}
	format := constant.StringVal(tv.Value)
	args := call.Args[1:]
	var parts []Term
	lit := ""
	ai := 0
	for i := 0; i < len(format); i++ {
		c := format[i]
		if c != '%' || i+1 >= len(format) {
			lit += string(c)
			continue
		}
		i++
		verb := format[i]
		if verb == '%' {
			lit += "%"
			continue
		}
		if lit != "" {
			parts = append(parts, StrLit(lit))
			lit = ""
		}
		if ai >= len(args) {
			vc.fail(call.Pos(), "Sprintf: missing argument")
		}
		a := args[ai]
		ai++
		at := f.typeOf(a)
		switch {
		case verb == 's' && f.sortOf(at) == SString:
			parts = append(parts, f.expr(st, a))
		case (verb == 'd' || verb == 'v') && f.sortOf(at) == SInt && isIntegerType(at):
			parts = append(parts, itoa(f.expr(st, a)))
		case verb == 'v' && f.sortOf(at) == SString:
			parts = append(parts, f.expr(st, a))
		default:
			f.exprAny(st, a)
			parts = append(parts, vc.fresh("fmt", SString))
			vc.dropped["Sprintf verb %"+string(verb)+" (uninterpreted text)"]++
		}
	}
	if lit != "" {
		parts = append(parts, StrLit(lit))
	}
	switch len(parts) {
	case 0:
		return StrLit("")
	case 1:
		return parts[0]
	}
	return app(SString, "str.++", parts...)
}

func isIntegerType(t types.Type) bool {
	b, ok := t.Underlying().(*types.Basic)
	return ok && b.Info()&types.IsInteger != 0
}

// ------------------------------------------------------------ interface dispatch (closed world)

func (f *Frame) ifaceCall(st *State, fn *types.Func, call *ast.CallExpr) []Term {
	vc := f.vc
	sel := ast.Unparen(call.Fun).(*ast.SelectorExpr)
	recv := f.expr(st, sel.X)
	// an explicit (assumed) contract on the interface method wins
	if fi := vc.prog.Funcs[fn.Origin()]; fi != nil && fi.Kind == KContract {
		args := []Term{recv}
		sig := fn.Type().(*types.Signature)
		for i, a := range call.Args {
			args = append(args, f.convert(f.expr(st, a), f.typeOf(a), sig.Params().At(i).Type()))
		}
		return f.callByContract(st, fi, args, f.tsub, call.Pos())
	}
	if fn.Pkg() != nil && vc.prog.PurePkgs[fn.Pkg().Path()] {
		// interface method of a package declared pure: an uninterpreted function of receiver and arguments
		args := []Term{recv}
		sig := fn.Type().(*types.Signature)
		for i, a := range call.Args {
			args = append(args, f.convert(f.expr(st, a), f.typeOf(a), sig.Params().At(i).Type()))
		}
		return []Term{f.uf(vc.prog.funcInfo(fn), args)}
	}
	impls := f.implsOf(fn)
	if len(impls) == 0 {
		vc.fail(call.Pos(), "interface call %s: no implementation found and no contract on the interface method", fn.Name())
	}
	vc.dropped["closed-world dispatch of "+fn.FullName()]++
	sig := fn.Type().(*types.Signature)
	var argv []Term
	for i, a := range call.Args {
		if lit, ok := a.(*ast.FuncLit); ok {
			argv = append(argv, f.closureValue(st, lit))
			continue
		}
		argv = append(argv, f.convert(f.expr(st, a), f.typeOf(a), sig.Params().At(i).Type()))
	}
	f.safe(st, Not(Eq(recv, NilIface())), "nilifacecall", call.Pos())
	base := st.clone()
	var outs []*State
	var vals [][]Term
	covered := False
	for _, im := range impls {
		cond := Eq(ITag(recv), IntLit(int64(vc.tagOf(im.t))))
		covered = Or(covered, cond)
		bs := base.clone()
		bs.pc = vc.define("pc", And(base.pc, cond))
		fi := vc.prog.funcInfo(im.fn)
		args := append([]Term{IRef(recv)}, argv...)
		rs := f.invoke(bs, fi, args, f.tsub, call.Pos())
		outs = append(outs, bs)
		vals = append(vals, rs)
	}
	vc.assume(base, covered) // closed world (trusted)
	nres := sig.Results().Len()
	results := make([]Term, nres)
	acc := outs[0]
	copy(results, vals[0])
	for i := 1; i < len(outs); i++ {
		c := acc.pc
		for j := 0; j < nres; j++ {
			results[j] = vc.define("res", Ite(c, results[j], vals[i][j]))
		}
		acc = vc.merge2(acc, outs[i])
	}
	*st = *acc
	return results
}

type ifaceImpl struct {
	t  types.Type
	fn *types.Func
}

// implsOf: closed world - implementations of an interface method declared in the loaded repo packages.
func (f *Frame) implsOf(fn *types.Func) []ifaceImpl {
	vc := f.vc
	iface := fn.Type().(*types.Signature).Recv().Type().Underlying().(*types.Interface)
	var impls []ifaceImpl
	for _, pk := range vc.prog.Pkgs {
		if !strings.HasPrefix(pk.PkgPath, "github.com/mazrean/kessoku") || pk.Types == nil {
			continue
		}
		sc := pk.Types.Scope()
		for _, nm := range sc.Names() {
			tn, ok := sc.Lookup(nm).(*types.TypeName)
			if !ok || tn.IsAlias() {
				continue
			}
			if _, isI := tn.Type().Underlying().(*types.Interface); isI {
				continue
			}
			if n, ok := tn.Type().(*types.Named); ok && n.TypeParams().Len() > 0 {
				continue
			}
			pt := types.NewPointer(tn.Type())
			if types.Implements(pt, iface) {
				o, _, _ := types.LookupFieldOrMethod(pt, true, pk.Types, fn.Name())
				if m, ok := o.(*types.Func); ok {
					impls = append(impls, ifaceImpl{pt, m})
				}
			}
		}
	}
	sort.Slice(impls, func(i, j int) bool { return impls[i].t.String() < impls[j].t.String() })
	return impls
}

// ------------------------------------------------------------ function values

// closureValue gives a function literal an identity; calls through unknown
// function values are uninterpreted (see funcValueCall).
func (f *Frame) closureValue(st *State, lit *ast.FuncLit) Term {
	r := f.vc.fresh("closure", SInt)
	f.vc.assume(st, Not(Eq(r, IntLit(0))))
	if f.vc.closureLits == nil {
		f.vc.closureLits = map[string]*closureInfo{}
	}
	f.vc.closureLits[r.S] = &closureInfo{lit: lit, fr: f}
	return r
}

type closureInfo struct {
	lit *ast.FuncLit
	fr  *Frame
}

type closureAlt struct {
	cond Term
	term string
}

// closureAlternatives unfolds a function value defined as (ite c a b) over known closures.
func (vc *VC) closureAlternatives(term string, depth int) []closureAlt {
	if depth > 8 {
		return nil
	}
	if vc.closureLits[term] != nil || vc.namedFns[term] != nil || term == "0" {
		return []closureAlt{{True, term}}
	}
	body, ok := vc.defs[term]
	if !ok {
		return nil
	}
	parts := splitSexp(body)
	if len(parts) != 4 || parts[0] != "ite" {
		return nil
	}
	a := vc.closureAlternatives(parts[2], depth+1)
	b := vc.closureAlternatives(parts[3], depth+1)
	if a == nil || b == nil {
		return nil
	}
	c := Term{parts[1], SBool}
	var out []closureAlt
	for _, x := range a {
		out = append(out, closureAlt{And(c, x.cond), x.term})
	}
	for _, x := range b {
		out = append(out, closureAlt{And(Not(c), x.cond), x.term})
	}
	return out
}

// splitSexp splits "(op a b c)" into [op a b c] at the top level.
func splitSexp(s string) []string {
	s = strings.TrimSpace(s)
	if len(s) < 2 || s[0] != '(' || s[len(s)-1] != ')' {
		return nil
	}
	s = s[1 : len(s)-1]
	var out []string
	depth, start := 0, -1
	inStr := false
	for i := 0; i < len(s); i++ {
		c := s[i]
		if inStr {
			if c == '"' {
				inStr = false
			}
			continue
		}
		switch {
		case c == '"':
			inStr = true
			if start < 0 {
				start = i
			}
		case c == '(':
			if depth == 0 && start < 0 {
				start = i
			}
			depth++
		case c == ')':
			depth--
		case c == ' ' || c == '\n' || c == '\t':
			if depth == 0 && start >= 0 {
				out = append(out, s[start:i])
				start = -1
			}
		default:
			if start < 0 {
				start = i
			}
		}
	}
	if start >= 0 {
		out = append(out, s[start:])
	}
	return out
}

// namedFuncValue: a declared function used as a value. It gets a constant identity; if it has a
// contract, calling it through the value is a call by contract (see funcValueCall).
func (f *Frame) namedFuncValue(st *State, fn *types.Func) Term {
	vc := f.vc
	name := "fn_" + mangle(funcKey(fn))
	if !vc.declared[name] {
		vc.declared[name] = true
		vc.funDecls = append(vc.funDecls, fmt.Sprintf("(declare-const %s Int)", name), fmt.Sprintf("(assert (not (= %s 0)))", name))
	}
	if vc.namedFns == nil {
		vc.namedFns = map[string]*types.Func{}
	}
	vc.namedFns[name] = fn
	return Term{name, SInt}
}

// funcValueCall models a call through a function-typed value whose body is
// unknown here: the result is an uninterpreted function of (closure, args);
// the callee is assumed not to modify the heap (stated in the evidence).
func (f *Frame) funcValueCall(st *State, call *ast.CallExpr) []Term {
	vc := f.vc
	fv := f.expr(st, call.Fun)
	sig, ok := f.typeOf(call.Fun).Underlying().(*types.Signature)
	if !ok {
		vc.fail(call.Pos(), "call of a non-function value")
	}
	// a merged function value (phi of literals chosen on different branches): case split
	if alts := vc.closureAlternatives(fv.S, 0); len(alts) > 1 {
		var argv []Term
		for i, a := range call.Args {
			argv = append(argv, f.convert(f.expr(st, a), f.typeOf(a), sig.Params().At(i).Type()))
		}
		base := st.clone()
		var outs []*State
		var vals [][]Term
		for _, alt := range alts {
			bs := base.clone()
			bs.pc = vc.define("pc", And(base.pc, alt.cond))
			var rs []Term
			switch {
			case vc.closureLits[alt.term] != nil:
				ci := vc.closureLits[alt.term]
				rs = ci.fr.inlineLitArgs(bs, ci.lit, argv)
			case vc.namedFns[alt.term] != nil:
				rs = f.invoke(bs, vc.prog.funcInfo(vc.namedFns[alt.term]), argv, f.tsub, call.Pos())
			default: // nil or unknown: the call cannot happen / is uninterpreted on this alternative
				for i := 0; i < sig.Results().Len(); i++ {
					rs = append(rs, vc.zero(f.subst(sig.Results().At(i).Type())))
				}
				if alt.term == "0" {
					f.safe(bs, False, "nilfunccall", call.Pos())
				}
			}
			outs = append(outs, bs)
			vals = append(vals, rs)
		}
		nres := sig.Results().Len()
		results := make([]Term, nres)
		acc := outs[0]
		copy(results, vals[0])
		for i := 1; i < len(outs); i++ {
			c := acc.pc
			for j := 0; j < nres; j++ {
				results[j] = vc.define("res", Ite(c, results[j], vals[i][j]))
			}
			acc = vc.merge2(acc, outs[i])
		}
		*st = *acc
		return results
	}
	if nfn, known := vc.namedFns[fv.S]; known {
		fi := vc.prog.funcInfo(nfn)
		var argv []Term
		for i, a := range call.Args {
			argv = append(argv, f.convert(f.expr(st, a), f.typeOf(a), sig.Params().At(i).Type()))
		}
		return f.invoke(st, fi, argv, f.tsub, call.Pos())
	}
	if ci, known := vc.closureLits[fv.S]; known {
		// a function literal of the function under verification, passed down to an inlined model: run its body
		// in the defining frame (captured variables are shared through the environment)
		var argv []Term
		for i, a := range call.Args {
			argv = append(argv, f.convert(f.expr(st, a), f.typeOf(a), sig.Params().At(i).Type()))
		}
		return ci.fr.inlineLitArgs(st, ci.lit, argv)
	}
	f.safe(st, Not(Eq(fv, IntLit(0))), "nilfunccall", call.Pos())
	args := []Term{fv}
	for i, a := range call.Args {
		args = append(args, f.convert(f.expr(st, a), f.typeOf(a), sig.Params().At(i).Type()))
	}
	vc.dropped["calls through function values are uninterpreted and heap-neutral"]++
	var out []Term
	for i := 0; i < sig.Results().Len(); i++ {
		rs := f.sortOf(sig.Results().At(i).Type())
		name := fmt.Sprintf("apply%d_%s", i, mangle(types.TypeString(sig, nil)))
		r := vc.ufApp(name, rs, args...)
		for _, fact := range f.typeFacts(st, r, sig.Results().At(i).Type()) {
			vc.assume(st, fact)
		}
		out = append(out, r)
	}
	return out
}

package main

import (
	"fmt"
	"golang.org/x/tools/go/packages"
)

func main() {
	cfg := &packages.Config{Mode: packages.LoadAllSyntax, Dir: "/repo", BuildFlags: []string{"-tags=verif"},
		Env: append([]string{"GOWORK=off", "GOFLAGS=-mod=mod", "GOPROXY=off", "GOTOOLCHAIN=go1.25.5"}, envBase()...)}
	pkgs, err := packages.Load(cfg, "./internal/kessoku", "./internal/llmsetup", "./internal/migrate", "./internal/pkg/collection", ".")
	fmt.Println(len(pkgs), err)
	for _, p := range pkgs { fmt.Println(p.PkgPath, len(p.Syntax), p.Errors) }
}

package main

import (
	"encoding/json"
	"flag"
	"fmt"
	"os"
	"regexp"
	"strconv"
	"strings"
	"time"
)

func main() {
	if len(os.Args) < 2 {
		fmt.Fprintln(os.Stderr, "usage: kvc verify [-t sec] [-filter re] <FuncKey>... | kvc check <PROP> <tier> | kvc list")
		os.Exit(2)
	}
	switch os.Args[1] {
	case "verify":
		cmdVerify(os.Args[2:])
	case "list":
		cmdList()
	case "check":
		os.Exit(cmdCheck(os.Args[2:]))
	case "replay":
		os.Exit(cmdReplay(os.Args[2]))
	case "lock":
		cmdLock(os.Args[2:])
	case "maporder":
		cmdMapOrder(os.Args[2:])
	default:
		fmt.Fprintln(os.Stderr, "unknown command")
		os.Exit(2)
	}
}

func cmdList() {
	prog, err := loadProgram()
	if err != nil {
		fmt.Fprintln(os.Stderr, err)
		os.Exit(2)
	}
	for _, p := range prog.Problems {
		fmt.Println("PROBLEM:", p)
	}
	for _, fi := range sortedFuncInfos(prog) {
		vc, err := buildVC(prog, fi)
		if err != nil {
			fmt.Printf("%-50s ERROR %v\n", fi.Key, err)
			continue
		}
		fmt.Printf("%-50s %d obligations\n", fi.Key, len(vc.obls))
	}
}

func cmdVerify(args []string) {
	fs := flag.NewFlagSet("verify", flag.ExitOnError)
	timeout := fs.Int("t", 10, "per-obligation timeout (s)")
	filt := fs.String("filter", "", "regexp on obligation names")
	work := fs.String("work", "/verif/work/dbg", "work dir")
	verbose := fs.Bool("v", false, "print discharged obligations too")
	agree := fs.Int("agree", 1, "back ends that must agree on unsat")
	_ = fs.Parse(args)
	if env := os.Getenv("KVC_REPO"); env != "" {
		repoDir = env
	}
	t0 := time.Now()
	prog, err := loadProgram()
	if err != nil {
		fmt.Fprintln(os.Stderr, err)
		os.Exit(2)
	}
	fmt.Printf("loaded in %.1fs\n", time.Since(t0).Seconds())
	for _, p := range prog.Problems {
		fmt.Println("PROBLEM:", p)
	}
	var re *regexp.Regexp
	if *filt != "" {
		re = regexp.MustCompile(*filt)
	}
	var fis []*FuncInfo
	if fs.NArg() == 0 {
		fis = sortedFuncInfos(prog)
	}
	for _, k := range fs.Args() {
		found := false
		for _, fi := range sortedFuncInfos(prog) {
			if fi.Key == k || strings.HasSuffix(fi.Key, k) {
				fis = append(fis, fi)
				found = true
			}
		}
		if !found {
			fmt.Println("no function under contract matches", k)
		}
	}
	bad := 0
	for _, fi := range fis {
		vc, err := buildVC(prog, fi)
		if err != nil {
			fmt.Printf("== %s: CANNOT TRANSLATE: %v\n", fi.Key, err)
			bad++
			continue
		}
		seed := 0
		if v, err := strconv.Atoi(os.Getenv("VERIF_SEED")); err == nil {
			seed = v
		}
		cfg := runCfg{workDir: *work, timeoutS: *timeout, seed: seed, needAgree: *agree, par: 6}
		if re != nil {
			cfg.filter = func(n string) bool { return re.MatchString(n) }
		}
		rs := discharge(vc, cfg)
		ok := 0
		for _, r := range rs {
			if r.Status == "discharged" || r.Status == "cover-ok" {
				ok++
				if *verbose {
					fmt.Printf("   ok   %-70s %s %.2fs\n", r.Name, r.Backend, r.TimeS)
				}
				continue
			}
			bad++
			fmt.Printf("   %-9s %s [%s] %s\n      %s\n      %s\n", strings.ToUpper(r.Status), r.Name, r.Result, r.Pos, r.Text, r.SMT2)
			for k, v := range r.Model {
				fmt.Printf("      %s = %s\n", k, truncate(strings.Join(strings.Fields(v), " "), 160))
			}
		}
		fmt.Printf("== %s: %d/%d obligations ok\n", fi.Key, ok, len(rs))
	}
	fmt.Printf("total %.1fs, %d not ok\n", time.Since(t0).Seconds(), bad)
}

// cmdLock records the normalised names of the obligations currently generated
// and discharged for each claimed property (run on the unchanged tree only).
func cmdLock(args []string) {
	var pmap map[string]*PropSpec
	if err := readJSON(verifDir+"/properties.map.json", &pmap); err != nil {
		fmt.Fprintln(os.Stderr, err)
		os.Exit(2)
	}
	prog, err := loadProgram()
	if err != nil {
		fmt.Fprintln(os.Stderr, err)
		os.Exit(2)
	}
	lock := map[string][]string{}
	_ = readJSON(verifDir+"/obligations.lock.json", &lock)
	byKey := map[string]*FuncInfo{}
	for _, fi := range prog.Funcs {
		if fi.Kind == KContract {
			byKey[fi.Key] = fi
		}
	}
	for _, fi := range prog.AspectFuncs {
		if fi.Kind == KContract {
			byKey[fi.Key] = fi
		}
	}
	for prop, ps := range pmap {
		if len(args) > 0 && !contains(args, prop) {
			continue
		}
		set := map[string]bool{}
		var incl, excl []*regexp.Regexp
		for _, r := range ps.Obligations {
			incl = append(incl, regexp.MustCompile(r))
		}
		for _, r := range ps.Exclude {
			excl = append(excl, regexp.MustCompile(r))
		}
		for _, key := range ps.Functions {
			fi := byKey[key]
			if fi == nil || fi.Spec == nil || fi.Spec.Trusted {
				continue
			}
			vc, err := buildVC(prog, fi)
			if err != nil {
				fmt.Println("skip", key, err)
				continue
			}
		NEXT:
			for _, o := range vc.obls {
				if o.Kind == "cover" {
					continue
				}
				for _, r := range excl {
					if r.MatchString(o.Name) {
						continue NEXT
					}
				}
				ok := len(incl) == 0
				for _, r := range incl {
					if r.MatchString(o.Name) {
						ok = true
					}
				}
				if ok {
					set[normName(o.Name)] = true
				}
			}
		}
		var names []string
		for n := range set {
			names = append(names, n)
		}
		sortStrings(names)
		lock[prop] = names
		fmt.Printf("%s: %d obligation names locked\n", prop, len(names))
	}
	b, _ := json.MarshalIndent(lock, "", " ")
	_ = os.WriteFile(verifDir+"/obligations.lock.json", b, 0o644)
}

func contains(xs []string, x string) bool {
	for _, y := range xs {
		if y == x {
			return true
		}
	}
	return false
}

func cmdMapOrder(pkgs []string) {
	prog, err := loadProgram()
	if err != nil {
		fmt.Fprintln(os.Stderr, err)
		os.Exit(2)
	}
	for _, site := range findMapRanges(prog, pkgs) {
		vc, note, err := buildMapOrderVC(prog, site)
		if err != nil {
			fmt.Printf("%-70s CANNOT: %v\n", site.name, err)
			continue
		}
		rs := discharge(vc, runCfg{workDir: "/verif/work/dbg", timeoutS: 10, needAgree: 1, par: 4})
		for _, r := range rs {
			fmt.Printf("%-70s %s [%s] %s\n", r.Name, r.Status, r.Result, note)
		}
	}
}

package main

import (
	"fmt"
	"go/ast"
	"go/token"
	"go/types"
	"os"
	"regexp"
	"sort"
	"strings"

	"golang.org/x/tools/go/packages"
)

type envKey struct {
	obj  types.Object
	path string // for struct-valued locals: flattened field path
}

type lazyBase struct {
	epoch int
	cond  Term
	a, b  *lazyBase
}

type State struct {
	env  map[envKey]Term
	heap map[string]Term
	base *lazyBase
	pc   Term
	// rec: non-zero while this state descends from the scratch state on which the reads of an opaque spec function
	// are being recorded
	rec int
}

func (s *State) clone() *State {
	n := &State{env: make(map[envKey]Term, len(s.env)), heap: make(map[string]Term, len(s.heap)), base: s.base, pc: s.pc, rec: s.rec}
	for k, v := range s.env {
		n.env[k] = v
	}
	for k, v := range s.heap {
		n.heap[k] = v
	}
	return n
}

type Obligation struct {
	Name      string
	Kind      string // post | pre | inv.entry | inv.preserved | safety | frame | assert | monitor | cover
	Func      string
	Pos       string
	ScriptLen int
	Goal      Term
	Values    []NamedTerm // terms whose model values are requested on sat
	Expect    string      // "unsat" (default) or "not-unsat" (cover)
	Text      string      // source text of the clause
}

type NamedTerm struct {
	Name string
	T    Term
}

type VC struct {
	opaqueReads    map[*FuncInfo][]string
	recordReads    map[string]bool
	recordID       int
	recordOther    bool
	typeInvChecked map[string]bool
	prog           *Program
	fi             *FuncInfo
	script         []string
	obls           []*Obligation
	n              int
	tags           map[string]int
	heapSort       map[string]string
	declared       map[string]bool
	epochs         int
	errs           []string
	ufs            map[string]bool
	callN          map[string]int
	srcCache       map[string][]byte
	dropped        map[string]int
	entryVals      []NamedTerm
	deferLits      []*ast.FuncLit
	closureLits    map[string]*closureInfo
	quantDepth     int // >0 while the body of a quantifier is being translated
	asserted       map[string]bool
	liveSplits     int
	structSorts    map[string]*types.Struct
	sortDecls      []string // datatype declarations (emitted first)
	funDecls       []string // uninterpreted functions / global constants (emitted after the sorts)
	ghostKeys      map[string]bool
	nameCount      map[string]int
	usedContracts  map[string]bool
	namedFns       map[string]*types.Func
	defs           map[string]string
	patMemo        map[string]bool
}

func newVC(prog *Program, fi *FuncInfo) *VC {
	return &VC{prog: prog, fi: fi, tags: map[string]int{}, heapSort: map[string]string{}, declared: map[string]bool{},
		ufs: map[string]bool{}, callN: map[string]int{}, srcCache: map[string][]byte{}, dropped: map[string]int{}}
}

type vcError struct{ msg string }

func (vc *VC) fail(pos token.Pos, format string, a ...any) {
	msg := fmt.Sprintf(format, a...)
	if pos.IsValid() {
		msg = vc.prog.Fset.Position(pos).String() + ": " + msg
	}
	panic(vcError{msg})
}

func (vc *VC) emit(line string) {
	if strings.HasPrefix(line, "(assert ") {
		// identical assumptions (type facts re-derived at every read) are emitted once
		if vc.asserted == nil {
			vc.asserted = map[string]bool{}
		}
		if vc.asserted[line] {
			return
		}
		vc.asserted[line] = true
	}
	vc.script = append(vc.script, line)
}

func (vc *VC) fresh(prefix, sort string) Term {
	if vc.quantDepth > 0 {
		panic(vcError{"a construct that needs a fresh constant (" + prefix + ") is used under a quantifier"})
	}
	vc.n++
	name := fmt.Sprintf("%s!%d", mangle(prefix), vc.n)
	vc.emit(fmt.Sprintf("(declare-const %s %s)", name, sort))
	return Term{name, sort}
}

func (vc *VC) define(prefix string, t Term) Term {
	// literals and plain names need no definition
	if !strings.HasPrefix(t.S, "(") || vc.quantDepth > 0 {
		return t // literals and names need no definition; terms over bound variables cannot be hoisted
	}
	vc.n++
	name := fmt.Sprintf("%s!%d", mangle(prefix), vc.n)
	vc.emit(fmt.Sprintf("(define-fun %s () %s %s)", name, t.Sort, t.S))
	if vc.defs == nil {
		vc.defs = map[string]string{}
	}
	vc.defs[name] = t.S
	return Term{name, t.Sort}
}

var identRe = regexp.MustCompile(`[A-Za-z_][A-Za-z0-9_]*![0-9]+`)

// patternOK: the pattern stays connective-free after the solver expands defined names.
func (vc *VC) patternOK(p string) bool {
	if vc.patMemo == nil {
		vc.patMemo = map[string]bool{}
	}
	for _, id := range identRe.FindAllString(p, -1) {
		body, isDef := vc.defs[id]
		if !isDef {
			continue
		}
		ok, seen := vc.patMemo[id]
		if !seen {
			vc.patMemo[id] = false // cycle guard
			ok = validPatternBody(body) && vc.patternOK(body)
			vc.patMemo[id] = ok
		}
		if !ok {
			return false
		}
	}
	return true
}

func validPatternBody(s string) bool {
	for _, bad := range []string{"(ite ", "(and ", "(or ", "(not ", "(=> ", "(= ", "(<= ", "(< ", "(>= ", "(> ", "(forall ", "(exists "} {
		if strings.Contains(s, bad) {
			return false
		}
	}
	return true
}

func (vc *VC) assume(st *State, fact Term) {
	g := Imp(st.pc, fact)
	if g.S == "true" || vc.quantDepth > 0 {
		return // facts mentioning a bound variable are dropped (fewer assumptions: sound)
	}
	vc.emit("(assert " + g.S + ")")
}

func (vc *VC) assumeGlobal(fact Term) {
	if fact.S == "true" || vc.quantDepth > 0 {
		return
	}
	vc.emit("(assert " + fact.S + ")")
}

func (vc *VC) posStr(p token.Pos) string {
	if !p.IsValid() {
		return ""
	}
	pp := vc.prog.Fset.Position(p)
	return fmt.Sprintf("%s:%d", strings.TrimPrefix(pp.Filename, repoDir+"/"), pp.Line)
}

// oblige records a proof obligation pc => cond and then assumes it.
// uniqueName: obligations generated several times under the same name (ghost code / inlined models executed on
// several paths) get an ordinal, so that every obligation has its own query file.
func (vc *VC) uniqueName(name string) string {
	if vc.nameCount == nil {
		vc.nameCount = map[string]int{}
	}
	vc.nameCount[name]++
	if n := vc.nameCount[name]; n > 1 {
		return fmt.Sprintf("%s#%d", name, n)
	}
	return name
}

func (vc *VC) oblige(st *State, name, kind string, cond Term, pos token.Pos, text string) {
	goal := Imp(st.pc, cond)
	if goal.S == "true" {
		return
	}
	name = vc.uniqueName(name)
	o := &Obligation{Name: vc.fi.Key + "/" + name, Kind: kind, Func: vc.fi.Key, Pos: vc.posStr(pos), ScriptLen: len(vc.script), Goal: goal, Text: text, Values: vc.valuesOf(st)}
	vc.obls = append(vc.obls, o)
	vc.emit("(assert " + goal.S + ")")
}

// obligeOnly records an obligation without assuming it afterwards (used where nothing downstream needs it:
// postconditions and frame checks at a return, crash-point monitors).
func (vc *VC) obligeOnly(st *State, name, kind string, cond Term, pos token.Pos, text string) {
	goal := Imp(st.pc, cond)
	if goal.S == "true" {
		return
	}
	name = vc.uniqueName(name)
	o := &Obligation{Name: vc.fi.Key + "/" + name, Kind: kind, Func: vc.fi.Key, Pos: vc.posStr(pos), ScriptLen: len(vc.script), Goal: goal, Text: text, Values: vc.valuesOf(st)}
	vc.obls = append(vc.obls, o)
}

// valuesOf: the terms whose model values are reported when an obligation fails: the function's
// parameters (entry values), witnesses, and the scalar locals of the state the obligation is checked in.
func (vc *VC) valuesOf(st *State) []NamedTerm {
	out := append([]NamedTerm{}, vc.entryVals...)
	var extra []NamedTerm
	for k, v := range st.env {
		if k.obj == nil || k.path != "" {
			if k.obj == nil && strings.HasPrefix(k.path, "$idx") {
				extra = append(extra, NamedTerm{"loop-index", v})
			}
			continue
		}
		if v.Sort == SInt || v.Sort == SBool || v.Sort == SString {
			extra = append(extra, NamedTerm{"local " + k.obj.Name(), v})
		}
	}
	sort.Slice(extra, func(i, j int) bool { return extra[i].Name < extra[j].Name })
	if len(extra) > 24 {
		extra = extra[:24]
	}
	return append(out, extra...)
}

func (vc *VC) cover(st *State, name string, pos token.Pos) {
	o := &Obligation{Name: vc.fi.Key + "/" + name, Kind: "cover", Func: vc.fi.Key, Pos: vc.posStr(pos), ScriptLen: len(vc.script), Goal: Not(st.pc), Expect: "not-unsat"}
	vc.obls = append(vc.obls, o)
}

var pcNameRe = regexp.MustCompile(`pc![0-9]+`)

// relevantPCs: the path conditions the obligation's own path condition is built from (transitively).
// Facts guarded by any other path condition belong to paths that cannot reach this obligation; leaving
// them out of its query is sound (fewer hypotheses) and keeps contexts small under path splitting.
func (vc *VC) relevantPCs(goal string, scriptLen int) map[string]bool {
	if !strings.HasPrefix(goal, "(=> pc!") || os.Getenv("KVC_NOSLICE") != "" {
		return nil
	}
	seen := map[string]bool{} // every defined / declared name reached (path conditions among them)
	var walk func(n string)
	walk = func(n string) {
		if seen[n] {
			return
		}
		seen[n] = true
		if body, ok := vc.defs[n]; ok {
			for _, d := range identRe.FindAllString(body, -1) {
				walk(d)
			}
		}
	}
	// every name the goal mentions (its guard, the auxiliary path conditions created while its own
	// specification expressions were evaluated, and everything their definitions mention) ...
	for _, n := range identRe.FindAllString(goal, -1) {
		walk(n)
	}
	// ... and, to a fixpoint, the names mentioned inside the hypotheses that are kept
	for {
		before := len(seen)
		for _, l := range vc.script[:scriptLen] {
			if !strings.HasPrefix(l, "(assert (=> pc!") {
				continue
			}
			names := identRe.FindAllString(l, -1)
			keep := seen[pcNameRe.FindString(l)]
			if !keep {
				// a hypothesis about a constant the goal depends on (e.g. the result of a call made on the untaken
				// side of a merge: the merged value mentions the constant but not that side's path condition)
				for _, n := range names[1:] {
					if _, isDef := vc.defs[n]; !isDef && seen[n] && !strings.HasPrefix(n, "pc!") {
						keep = true
						break
					}
				}
			}
			if !keep {
				continue
			}
			for _, n := range names {
				walk(n)
			}
		}
		if len(seen) == before {
			break
		}
	}
	return seen
}

func (vc *VC) query(o *Obligation) string {
	var b strings.Builder
	b.WriteString(prelude)
	vc.writeHeader(&b)
	rel := vc.relevantPCs(o.Goal.S, o.ScriptLen)
	for _, l := range vc.script[:o.ScriptLen] {
		if rel != nil && strings.HasPrefix(l, "(assert (=> pc!") {
			if g := pcNameRe.FindString(l); !rel[g] {
				continue // its guard was never reached by the relevance closure
			}
		}
		b.WriteString(l)
		b.WriteString("\n")
	}
	b.WriteString("(assert (not " + o.Goal.S + "))\n(check-sat)\n")
	if len(o.Values) > 0 && o.Expect == "" {
		b.WriteString("(get-value (")
		for i, v := range o.Values {
			if i > 0 {
				b.WriteString(" ")
			}
			b.WriteString(v.T.S)
		}
		b.WriteString("))\n")
	}
	return b.String()
}

func (vc *VC) writeHeader(b *strings.Builder) {
	for _, l := range vc.sortDecls {
		b.WriteString(l)
		b.WriteString("\n")
	}
	for _, l := range vc.funDecls {
		b.WriteString(l)
		b.WriteString("\n")
	}
}

// relaxedQuery: the obligation's query with every quantified hypothesis removed (model finding only).
func (vc *VC) relaxedQuery(o *Obligation) string {
	var b strings.Builder
	b.WriteString(prelude)
	vc.writeHeader(&b)
	for _, l := range vc.script[:o.ScriptLen] {
		if strings.HasPrefix(l, "(assert") && (strings.Contains(l, "(forall ") || strings.Contains(l, "(exists ")) {
			continue
		}
		b.WriteString(l)
		b.WriteString("\n")
	}
	b.WriteString("(assert (not " + o.Goal.S + "))\n(check-sat)\n")
	if len(o.Values) > 0 {
		b.WriteString("(get-value (")
		for i, v := range o.Values {
			if i > 0 {
				b.WriteString(" ")
			}
			b.WriteString(v.T.S)
		}
		b.WriteString("))\n")
	}
	return b.String()
}

// ---------------------------------------------------------------- sorts

func (vc *VC) sortOf(t types.Type) string {
	switch u := t.(type) {
	case *types.Alias:
		return vc.sortOf(types.Unalias(u))
	case *types.Named:
		if _, ok := u.Underlying().(*types.Interface); ok {
			return SIface
		}
		if isOpaqueStruct(u) {
			return SInt
		}
		if st, ok := u.Underlying().(*types.Struct); ok && st.NumFields() > 0 {
			return vc.structSort(u, st)
		}
		return vc.sortOf(u.Underlying())
	case *types.Basic:
		switch {
		case u.Info()&types.IsBoolean != 0:
			return SBool
		case u.Info()&types.IsInteger != 0:
			return SInt
		case u.Info()&types.IsString != 0:
			return SString
		case u.Kind() == types.UntypedNil:
			return SInt
		case u.Kind() == types.UnsafePointer:
			return SInt
		}
		vc.fail(token.NoPos, "unsupported basic type %s", u)
	case *types.Pointer, *types.Map, *types.Chan, *types.Signature:
		return SInt
	case *types.Slice:
		return SliceSort(vc.sortOf(u.Elem()))
	case *types.Array:
		return SliceSort(vc.sortOf(u.Elem()))
	case *types.Interface:
		return SIface
	case *types.Struct:
		if u.NumFields() == 0 {
			return SUnit
		}
		return vc.structSort(t, u)
	case *types.TypeParam:
		vc.fail(token.NoPos, "unresolved type parameter %s", u)
	case *types.Tuple:
		vc.fail(token.NoPos, "tuple sort requested")
	}
	vc.fail(token.NoPos, "unsupported type %s (%T)", t, t)
	return ""
}

// structSort: a struct VALUE (local, parameter, slice element) is a record datatype, declared on first use.
func (vc *VC) structSort(t types.Type, st *types.Struct) string {
	name := "S_" + mangle(structName(t))
	if vc.structSorts == nil {
		vc.structSorts = map[string]*types.Struct{}
	}
	if _, ok := vc.structSorts[name]; ok {
		return name
	}
	vc.structSorts[name] = st
	var flds []string
	for i := 0; i < st.NumFields(); i++ {
		ft := st.Field(i).Type()
		fs := SUnit
		if !isEmptyStruct(ft) {
			fs = vc.sortOf(ft)
		}
		flds = append(flds, fmt.Sprintf("(%s_%s %s)", name, mangle(st.Field(i).Name()), fs))
	}
	decl := fmt.Sprintf("(declare-datatypes ((%s 0)) (((mk_%s %s))))", name, name, strings.Join(flds, " "))
	// sort declarations precede everything else in a query; nested struct sorts were declared by the recursive
	// sortOf calls above and therefore already precede this one
	vc.sortDecls = append(vc.sortDecls, decl)
	return name
}

func structFieldSel(sort string, field string) string { return sort + "_" + mangle(field) }

func isStructValue(t types.Type) bool {
	s, ok := t.Underlying().(*types.Struct)
	if !ok || s.NumFields() == 0 {
		return false
	}
	return !isOpaqueStruct(t)
}

// isOpaqueStruct: a struct type declared outside the repository (embed.FS, time.Time, list.List ...).
// Its values are opaque handles: kvc never looks inside them.
func isOpaqueStruct(t types.Type) bool {
	n, ok := types.Unalias(t).(*types.Named)
	if !ok {
		return false
	}
	if _, isStruct := n.Underlying().(*types.Struct); !isStruct {
		return false
	}
	return n.Obj().Pkg() != nil && !strings.HasPrefix(n.Obj().Pkg().Path(), "github.com/mazrean/kessoku")
}

func (vc *VC) zero(t types.Type) Term { return vc.zeroSort(vc.sortOf(t)) }

func (vc *VC) zeroSort(s string) Term {
	switch {
	case s == SBool:
		return False
	case s == SInt:
		return IntLit(0)
	case s == SString:
		return StrLit("")
	case s == SIface:
		return NilIface()
	case isSliceSort(s):
		e := sliceElemSort(s)
		return MkSlice(ConstArray(SInt, e, vc.zeroSort(e)), IntLit(0))
	case strings.HasPrefix(s, "(Array "):
		k, v := arrayParts(s)
		return ConstArray(k, v, vc.zeroSort(v))
	case strings.HasPrefix(s, "S_"):
		st := vc.structSorts[s]
		var args []Term
		for i := 0; i < st.NumFields(); i++ {
			ft := st.Field(i).Type()
			if isEmptyStruct(ft) {
				args = append(args, True)
			} else {
				args = append(args, vc.zeroSort(vc.sortOf(ft)))
			}
		}
		return app(s, "mk_"+s, args...)
	}
	vc.fail(token.NoPos, "no zero value for sort %s", s)
	return Term{}
}

func (vc *VC) tagOf(t types.Type) int {
	t = types.Unalias(t)
	if p, ok := t.(*types.Pointer); ok { // *Alias and *Named denote the same type
		t = types.NewPointer(types.Unalias(p.Elem()))
	}
	k := types.TypeString(t, nil)
	if id, ok := vc.tags[k]; ok {
		return id
	}
	id := len(vc.tags) + 1
	vc.tags[k] = id
	return id
}

// ---------------------------------------------------------------- heap

func (vc *VC) newEpoch() *lazyBase {
	vc.epochs++
	return &lazyBase{epoch: vc.epochs}
}

func (vc *VC) baseGet(b *lazyBase, key, srt string) Term {
	if b.a != nil {
		return Ite(b.cond, vc.baseGet(b.a, key, srt), vc.baseGet(b.b, key, srt))
	}
	name := fmt.Sprintf("H_%s@%d", mangle(key), b.epoch)
	name = strings.ReplaceAll(name, "@", "_e")
	if !vc.declared[name] {
		vc.declared[name] = true
		vc.emit(fmt.Sprintf("(declare-const %s %s)", name, srt))
	}
	return Term{name, srt}
}

func (vc *VC) heapGet(st *State, key, srt string) Term {
	if vc.recordReads != nil {
		if st.rec == vc.recordID {
			vc.recordReads[key] = true
		} else {
			vc.recordOther = true
		}
	}
	if prev, ok := vc.heapSort[key]; ok && prev != srt {
		vc.fail(token.NoPos, "heap key %s used at sorts %s and %s", key, prev, srt)
	}
	vc.heapSort[key] = srt
	if t, ok := st.heap[key]; ok {
		return t
	}
	t := vc.baseGet(st.base, key, srt)
	st.heap[key] = t
	return t
}

func (vc *VC) heapSet(st *State, key string, t Term) {
	vc.heapSort[key] = t.Sort
	st.heap[key] = t
}

const allocKey = "alloc"

// Allocation is modelled as a bump allocator: `alloc` is the next unused reference; the allocated
// references are exactly 1 .. alloc-1 (0 is nil). Programs can only compare references for equality,
// so any injective naming of objects is a faithful model, and "fresh" becomes arithmetic instead of
// a quantified array fact.
func (vc *VC) alloc(st *State) Term { return vc.heapGet(st, allocKey, SInt) }

func (vc *VC) isAlloc(st *State, r Term) Term {
	return And(app(SBool, "<", IntLit(0), r), app(SBool, "<", r, vc.alloc(st)))
}

func (vc *VC) isAllocOrNil(st *State, r Term) Term {
	return And(app(SBool, "<=", IntLit(0), r), app(SBool, "<", r, vc.alloc(st)))
}

// newRef allocates a fresh reference.
// hasType: reference r (nil excluded) points to an object of Go type t (the pointer / map type itself).
func (vc *VC) hasType(r Term, t types.Type) Term {
	return Eq(app(SInt, "typeof", r), IntLit(int64(vc.tagOf(t))))
}

func (vc *VC) newRefT(st *State, hint string, t types.Type) Term {
	r := vc.newRef(st, hint)
	if t != nil {
		vc.assume(st, vc.hasType(r, t))
	}
	return r
}

func (vc *VC) newRef(st *State, hint string) Term {
	a := vc.alloc(st)
	r := vc.define(hint, a)
	if r.S == a.S { // a plain name: give the object its own name for readable models
		vc.n++
		name := fmt.Sprintf("%s!%d", mangle(hint), vc.n)
		vc.emit(fmt.Sprintf("(define-fun %s () Int %s)", name, a.S))
		r = Term{name, SInt}
	}
	vc.heapSet(st, allocKey, vc.define("alloc", app(SInt, "+", a, IntLit(1))))
	return r
}

// havocAlloc: a callee / loop may allocate.
func (vc *VC) havocAlloc(st *State) {
	old := vc.alloc(st)
	nw := vc.fresh("alloc", SInt)
	vc.assumeGlobal(app(SBool, ">=", nw, old))
	vc.heapSet(st, allocKey, nw)
}

func (vc *VC) havocAll(st *State) {
	old := vc.alloc(st)
	// fields assigned only at construction keep their value on every object that already exists
	type kept struct {
		ff  *FinalField
		was Term
	}
	var keep []kept
	for _, ff := range vc.prog.Finals {
		if vc.fi == nil || ff.PkgPath != vc.fi.Pkg.PkgPath {
			continue
		}
		srt := ArraySort(SInt, vc.sortOf(ff.Sort))
		keep = append(keep, kept{ff, vc.heapGet(st, ff.Key, srt)})
	}
	st.base = vc.newEpoch()
	for k := range st.heap {
		if vc.ghostKeys[k] {
			continue // ghost state (variables of the contract files) is only changed by ghost code and models
		}
		delete(st.heap, k)
	}
	nw := vc.alloc(st)
	vc.assumeGlobal(app(SBool, ">=", nw, old))
	for _, k := range keep {
		now := vc.heapGet(st, k.ff.Key, k.was.Sort)
		r := Term{"r!", SInt}
		vc.assume(st, Forall([]Term{r}, Imp(And(app(SBool, "<", IntLit(0), r), app(SBool, "<", r, old)), Eq(Select(now, r), Select(k.was, r))), Select(now, r)))
		name := "final." + k.ff.Name + "/assigned_only_at_construction"
		if vc.typeInvChecked == nil {
			vc.typeInvChecked = map[string]bool{}
		}
		if !vc.typeInvChecked[name] {
			vc.typeInvChecked[name] = true
			goal, text := True, "field "+k.ff.Name+" is never assigned after construction (syntactic scan)"
			if len(k.ff.Breaches) > 0 {
				goal, text = False, strings.Join(k.ff.Breaches, "; ")
			}
			vc.obls = append(vc.obls, &Obligation{Name: vc.fi.Key + "/" + name, Kind: "assert", Func: vc.fi.Key, ScriptLen: 0, Goal: goal, Text: text})
		}
	}
}

func fieldKey(structName, field string) string { return "F:" + structName + "." + field }
func domKey(ksort string) string               { return "Dom:" + ksort }
func valKey(ksort, vsort string) string        { return "Val:" + ksort + ":" + vsort }

func (vc *VC) mapDom(st *State, ks string) Term {
	return vc.heapGet(st, domKey(ks), ArraySort(SInt, ArraySort(ks, SBool)))
}
func (vc *VC) mapVal(st *State, ks, vs string) Term {
	return vc.heapGet(st, valKey(ks, vs), ArraySort(SInt, ArraySort(ks, vs)))
}

func (vc *VC) mapSorts(t types.Type) (string, string) {
	m := t.Underlying().(*types.Map)
	ks := vc.sortOf(m.Key())
	var vs string
	if st, ok := m.Elem().Underlying().(*types.Struct); ok && st.NumFields() == 0 {
		vs = SUnit
	} else {
		vs = vc.sortOf(m.Elem())
	}
	return ks, vs
}

func (vc *VC) mapHas(st *State, m, k Term) Term {
	// a nil map holds nothing
	return And(Not(Eq(m, IntLit(0))), Select(Select(vc.mapDom(st, k.Sort), m), k))
}

func (vc *VC) mapRead(st *State, m, k Term, vs string) Term {
	v := Select(Select(vc.mapVal(st, k.Sort, vs), m), k)
	return Ite(vc.mapHas(st, m, k), v, vc.zeroSort(vs))
}

func (vc *VC) mapWrite(st *State, m, k, v Term) {
	dom := vc.mapDom(st, k.Sort)
	val := vc.mapVal(st, k.Sort, v.Sort)
	vc.heapSet(st, domKey(k.Sort), vc.define("dom", Store(dom, m, Store(Select(dom, m), k, True))))
	vc.heapSet(st, valKey(k.Sort, v.Sort), vc.define("val", Store(val, m, Store(Select(val, m), k, v))))
}

func (vc *VC) mapDelete(st *State, m, k Term) {
	dom := vc.mapDom(st, k.Sort)
	vc.heapSet(st, domKey(k.Sort), vc.define("dom", Store(dom, m, Store(Select(dom, m), k, False))))
}

func (vc *VC) newMap(st *State, ks, vs string) Term { return vc.newMapT(st, ks, vs, nil) }

func (vc *VC) newMapT(st *State, ks, vs string, t types.Type) Term {
	r := vc.newRefT(st, "map", t)
	dom := vc.mapDom(st, ks)
	val := vc.mapVal(st, ks, vs)
	vc.heapSet(st, domKey(ks), vc.define("dom", Store(dom, r, ConstArray(ks, SBool, False))))
	vc.heapSet(st, valKey(ks, vs), vc.define("val", Store(val, r, ConstArray(ks, vs, vc.zeroSort(vs)))))
	return r
}

// ---------------------------------------------------------------- merging

func (vc *VC) merge(states []*State) *State {
	var live []*State
	for _, s := range states {
		if s != nil && s.pc.S != "false" {
			live = append(live, s)
		}
	}
	if len(live) == 0 {
		return nil
	}
	acc := live[0]
	for _, s := range live[1:] {
		acc = vc.merge2(acc, s)
	}
	return acc
}

func (vc *VC) merge2(a, b *State) *State {
	c := a.pc // paths are mutually exclusive; under (or a.pc b.pc), a.pc selects a
	out := &State{env: map[envKey]Term{}, heap: map[string]Term{}, rec: a.rec}
	out.pc = vc.define("pc", Or(a.pc, b.pc))
	for k, va := range a.env {
		vb, ok := b.env[k]
		if !ok {
			continue // declared on one path only: out of scope after the join
		}
		if va.Sort != vb.Sort {
			continue
		}
		if k.obj == nil && k.path == "$defers" {
			if va.S != vb.S {
				panic(vcError{"paths with different sets of registered defers are merged"})
			}
			out.env[k] = va
			continue
		}
		if va.S == vb.S {
			out.env[k] = va
		} else {
			out.env[k] = vc.define("phi", Ite(c, va, vb))
		}
	}
	keys := map[string]bool{}
	for k := range a.heap {
		keys[k] = true
	}
	for k := range b.heap {
		keys[k] = true
	}
	var ks []string
	for k := range keys {
		ks = append(ks, k)
	}
	sort.Strings(ks)
	for _, k := range ks {
		srt := vc.heapSort[k]
		ta := vc.heapGet(a, k, srt)
		tb := vc.heapGet(b, k, srt)
		if ta.S == tb.S {
			out.heap[k] = ta
		} else {
			out.heap[k] = vc.define("phi", Ite(c, ta, tb))
		}
	}
	if a.base == b.base {
		out.base = a.base
	} else {
		out.base = &lazyBase{cond: c, a: a.base, b: b.base}
	}
	return out
}

// ---------------------------------------------------------------- source text

func (vc *VC) srcText(pk *packages.Package, n ast.Node) string {
	p := vc.prog.Fset.Position(n.Pos())
	e := vc.prog.Fset.Position(n.End())
	data, ok := vc.srcCache[p.Filename]
	if !ok {
		data, _ = readFile(p.Filename)
		vc.srcCache[p.Filename] = data
	}
	if p.Offset < 0 || e.Offset > len(data) || p.Offset > e.Offset {
		return ""
	}
	return string(data[p.Offset:e.Offset])
}

func normSpace(s string) string { return strings.Join(strings.Fields(s), " ") }

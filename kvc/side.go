package main

import (
	"bytes"
	"context"
	"encoding/json"
	"fmt"
	"os"
	"os/exec"
	"path/filepath"
	"strings"
	"time"
)

// SideDef describes an executed (bounded) or static check that runs the real
// code of /repo through `go test -overlay` (nothing is written into /repo).
type SideDef struct {
	Kind     string   `json:"kind"`  // gotest
	Pkg      string   `json:"pkg"`   // package dir relative to /repo
	Files    []string `json:"files"` // test sources under /verif, injected into Pkg
	Run      string   `json:"run"`   // test name
	Label    string   `json:"label"` // "bounded" | "static" | "replay"
	TimeoutS int      `json:"timeout_s"`
	Tags     string   `json:"tags"`
	Shims    []string `json:"shims"` // source files of /repo replaced by a mechanically rewritten copy (os.<effect> -> verifOS.<effect>)
	// ScratchWorkspace: run in a scratch copy of /repo's working tree (outside /repo and /verif, removed afterwards)
	// in Go workspace mode. Needed when the code under test calls `go list` itself (packages.Load) and the
	// packages it loads resolve only through go.work - workspace mode rewrites go.work.sum, which must not happen in /repo.
	ScratchWorkspace bool `json:"scratch_workspace"`
}

type SideFailure struct {
	Name   string `json:"name"`
	Detail string `json:"detail"`
	Input  any    `json:"input,omitempty"`
	Replay string `json:"-"`
}

type SideResult struct {
	Name     string
	Evidence map[string]any
	Failures []SideFailure
	Known    []string
	Broken   string
	Output   string
}

func loadSideDefs() map[string]*SideDef {
	var m map[string]*SideDef
	_ = readJSON(filepath.Join(verifDir, "sidechecks.json"), &m)
	return m
}

func runSideCheck(name, prop, tier string, seed int) *SideResult {
	return runSideCheckEnv(name, prop, tier, seed, nil)
}

func runSideCheckEnv(name, prop, tier string, seed int, extraEnv []string) *SideResult {
	sr := &SideResult{Name: name, Evidence: map[string]any{"name": name}}
	def := loadSideDefs()[name]
	if def == nil {
		sr.Broken = "side check not defined in sidechecks.json"
		return sr
	}
	work := filepath.Join(verifDir, "work", prop, "side_"+mangle(name))
	_ = os.MkdirAll(work, 0o755)
	repoDir := repoDir
	if def.ScratchWorkspace {
		tmp, err := os.MkdirTemp("", "kvc-side-")
		if err != nil {
			sr.Broken = "scratch dir: " + err.Error()
			return sr
		}
		defer os.RemoveAll(tmp)
		cp := exec.Command("rsync", "-a", "--exclude=.git", repoDirSlash(), tmp+"/")
		if out, err := cp.CombinedOutput(); err != nil {
			sr.Broken = "scratch copy: " + err.Error() + ": " + string(out)
			return sr
		}
		repoDir = tmp
		extraEnv = append(append([]string{}, extraEnv...), "GOWORK=", "GOFLAGS=-mod=readonly", "KVC_SCRATCH=1")
	}
	ov := map[string]map[string]string{"Replace": {}}
	for i, f := range def.Files {
		dst := filepath.Join(repoDir, def.Pkg, fmt.Sprintf("zz_verif_side_%d_test.go", i))
		if strings.HasSuffix(f, ".go") && !strings.HasSuffix(f, "_test.go") {
			dst = filepath.Join(repoDir, def.Pkg, fmt.Sprintf("zz_verif_side_%d.go", i))
		}
		ov["Replace"][dst] = filepath.Join(verifDir, f)
	}
	for i, src := range def.Shims {
		dst := filepath.Join(work, fmt.Sprintf("shim_%d.go", i))
		n, err := shimRewrite(filepath.Join(repoDir, src), dst)
		if err != nil {
			sr.Broken = "shim rewrite of " + src + ": " + err.Error()
			return sr
		}
		sr.Evidence["shim_rewrites_"+src] = n
		ov["Replace"][filepath.Join(repoDir, src)] = dst
	}
	ovb, _ := json.Marshal(ov)
	ovPath := filepath.Join(work, "overlay.json")
	_ = os.WriteFile(ovPath, ovb, 0o644)
	to := def.TimeoutS
	if to == 0 {
		to = 300
	}
	if tier == "thorough" {
		to *= 6
	}
	tags := "verif"
	if def.Tags != "" {
		tags = def.Tags
	}
	args := []string{"test", "-v", "-tags", tags, "-overlay", ovPath, "-vet=off", "-count=1", "-timeout", fmt.Sprintf("%ds", to), "-run", "^" + def.Run + "$", "./" + strings.TrimPrefix(def.Pkg, "./")}
	ctx, cancel := context.WithTimeout(context.Background(), time.Duration(to+30)*time.Second)
	defer cancel()
	cmd := exec.CommandContext(ctx, "go", args...)
	cmd.Dir = repoDir
	cmd.Env = append(goEnv(), "VERIF_TIER="+tier, fmt.Sprintf("VERIF_SEED=%d", seed), "KVC_WORK="+work, "KVC_VERIF="+verifDir)
	cmd.Env = append(cmd.Env, extraEnv...)
	var buf bytes.Buffer
	cmd.Stdout = &buf
	cmd.Stderr = &buf
	t0 := time.Now()
	runErr := cmd.Run()
	out := buf.String()
	sr.Output = out
	sr.Evidence["label"] = def.Label
	sr.Evidence["cmd"] = "go " + strings.Join(args, " ")
	sr.Evidence["wall_s"] = round2(time.Since(t0).Seconds())
	found := false
	for _, ln := range strings.Split(out, "\n") {
		ln = strings.TrimSpace(ln)
		if i := strings.Index(ln, "KVC-RESULT "); i >= 0 {
			var res struct {
				Evidence map[string]any `json:"evidence"`
				Failures []SideFailure  `json:"failures"`
				Known    []string       `json:"known"`
			}
			if err := json.Unmarshal([]byte(ln[i+len("KVC-RESULT "):]), &res); err != nil {
				sr.Broken = "unparsable KVC-RESULT: " + err.Error()
				return sr
			}
			found = true
			for k, v := range res.Evidence {
				sr.Evidence[k] = v
			}
			sr.Failures = append(sr.Failures, res.Failures...)
			sr.Known = append(sr.Known, res.Known...)
		}
	}
	if !found {
		// build failure of the injected test = the tree changed under the check in a way it cannot follow
		sr.Failures = append(sr.Failures, SideFailure{Name: "harness", Detail: "side check produced no result (build failure or crash): " + truncate(out, 1500)})
		_ = runErr
	}
	// write replay files for failures
	for i := range sr.Failures {
		f := &sr.Failures[i]
		dir := filepath.Join(verifDir, "replays", prop)
		_ = os.MkdirAll(dir, 0o755)
		p := filepath.Join(dir, mangle(name+"_"+f.Name)+".json")
		rb, _ := json.MarshalIndent(map[string]any{
			"property": prop, "side_check": name, "failed": f.Name, "detail": f.Detail, "input": f.Input,
			"rerun": "cd /verif && ./check --replay " + p, "cmd": sr.Evidence["cmd"], "output_tail": tail(out, 4000),
		}, "", " ")
		_ = os.WriteFile(p, rb, 0o644)
		f.Replay = p
	}
	return sr
}

func tail(s string, n int) string {
	if len(s) > n {
		return s[len(s)-n:]
	}
	return s
}

type replayOutcome struct {
	path       string
	reproduced bool
}

// attemptReplay lifts a failed obligation to an input of the real code through
// the property's replay side check (a directed, model-seeded search run on the
// real functions). The replay file always names the obligation and carries the
// solver's output.
func attemptReplay(ps *PropSpec, prop string, v *Violation, r *OblResult, dir string, seed int) replayOutcome {
	_ = os.MkdirAll(dir, 0o755)
	path := filepath.Join(dir, mangle(v.Obligation)+".json")
	rec := map[string]any{"property": prop, "obligation": v.Obligation, "reason": v.Reason}
	if r != nil {
		rec["solver_result"] = r.Result
		rec["backend"] = r.Backend
		rec["model"] = r.Model
		rec["solver_output"] = r.Output
		rec["smt2"] = r.SMT2
		rec["clause"] = r.Text
		rec["pos"] = r.Pos
	}
	reproduced := false
	if ps.Replay != "" {
		mb, _ := json.Marshal(map[string]any{"obligation": v.Obligation, "model": rec["model"]})
		sr := runSideCheckEnv(ps.Replay, prop, "quick", seed, []string{"KVC_MODEL=" + string(mb)})
		rec["replay_cmd"] = sr.Evidence["cmd"]
		rec["replay_env"] = "KVC_MODEL=" + string(mb)
		if len(sr.Failures) > 0 && sr.Failures[0].Name != "harness" {
			reproduced = true
			rec["failing_input"] = sr.Failures[0].Input
			rec["failing_detail"] = sr.Failures[0].Detail
		} else {
			rec["replay_note"] = "the model-seeded search on the real code found no failing input"
			rec["replay_output_tail"] = tail(sr.Output, 1500)
		}
	} else {
		rec["replay_note"] = "no replay lifter for this property"
	}
	rec["reproduced_on_real_code"] = reproduced
	rb, _ := json.MarshalIndent(rec, "", " ")
	_ = os.WriteFile(path, rb, 0o644)
	return replayOutcome{path: path, reproduced: reproduced}
}

func cmdReplay(path string) int {
	var rec map[string]any
	if err := readJSON(path, &rec); err != nil {
		fmt.Fprintln(os.Stderr, err)
		return 2
	}
	b, _ := json.MarshalIndent(rec, "", " ")
	fmt.Println(string(b))
	prop, _ := rec["property"].(string)
	name, _ := rec["side_check"].(string)
	var extra []string
	if name == "" {
		var pmap map[string]*PropSpec
		_ = readJSON(filepath.Join(verifDir, "properties.map.json"), &pmap)
		if ps := pmap[prop]; ps != nil {
			name = ps.Replay
		}
		if e, ok := rec["replay_env"].(string); ok {
			extra = append(extra, e)
		}
	} else if in, ok := rec["input"]; ok {
		ib, _ := json.Marshal(in)
		extra = append(extra, "KVC_REPLAY_INPUT="+string(ib))
	}
	if name == "" {
		fmt.Println("nothing executable to replay for this record")
		return 0
	}
	sr := runSideCheckEnv(name, prop, "quick", 0, extra)
	fmt.Println(tail(sr.Output, 3000))
	if len(sr.Failures) > 0 {
		fmt.Println("REPRODUCED:", sr.Failures[0].Detail)
		return 1
	}
	fmt.Println("not reproduced on the current tree")
	return 0
}

func repoDirSlash() string { return strings.TrimSuffix(repoDir, "/") + "/" }

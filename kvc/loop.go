package main

import (
	"fmt"
	"go/ast"
	"go/token"
	"go/types"
	"strings"
)

// Targets: what a loop body may modify (syntactic over-approximation).
type Targets struct {
	vars    map[types.Object]bool
	fields  map[string][]ast.Expr // heap key -> base expressions (nil entry = unknown base => whole key)
	fsort   map[string]string
	maps    map[string][]ast.Expr // "ks|vs" -> map expressions (nil entry = whole)
	all     bool
	alloc   bool
	globals map[string]bool
	callee  []calleeMod
}

// calleeMod: a Modifies entry of a callee with a contract, called directly in the loop body.
type calleeMod struct {
	sp    *Spec
	entry ast.Expr
	call  *ast.CallExpr
	isMap bool
	key   string // heap key for fields, "ks|vs" for maps
}

func newTargets() *Targets {
	return &Targets{vars: map[types.Object]bool{}, fields: map[string][]ast.Expr{}, fsort: map[string]string{}, maps: map[string][]ast.Expr{}, globals: map[string]bool{}}
}

func (f *Frame) scanTargets(nodes []ast.Node) *Targets {
	t := newTargets()
	seen := map[*ast.FuncDecl]bool{}
	for _, n := range nodes {
		if n != nil {
			f.scanNode(n, t, seen, 0)
		}
	}
	return t
}

func (f *Frame) scanLhs(e ast.Expr, t *Targets) {
	info := f.info()
	switch e := ast.Unparen(e).(type) {
	case *ast.Ident:
		if e.Name == "_" {
			return
		}
		obj := info.Uses[e]
		if obj == nil {
			obj = info.Defs[e]
		}
		if v, ok := obj.(*types.Var); ok {
			if v.Pkg() != nil && v.Parent() == v.Pkg().Scope() {
				t.globals["G:"+v.Pkg().Name()+"."+v.Name()] = true
				t.fsort["G:"+v.Pkg().Name()+"."+v.Name()] = f.sortOf(v.Type())
			} else {
				t.vars[obj] = true
			}
		}
	case *ast.SelectorExpr:
		sel, ok := info.Selections[e]
		if !ok || sel.Kind() != types.FieldVal {
			t.all = true
			return
		}
		xt := info.TypeOf(e.X)
		if pt, ok := xt.Underlying().(*types.Pointer); ok && len(sel.Index()) == 1 {
			key := fieldKey(structName(pt.Elem()), e.Sel.Name)
			t.fields[key] = append(t.fields[key], e.X)
			t.fsort[key] = ArraySort(SInt, f.sortOf(info.TypeOf(e)))
			return
		}
		// nested struct value / embedded promotion: find the root
		root := e.X
		path := e.Sel.Name
		for {
			if s2, ok := ast.Unparen(root).(*ast.SelectorExpr); ok {
				if sel2, ok := info.Selections[s2]; ok && sel2.Kind() == types.FieldVal {
					if _, isPtr := info.TypeOf(s2).Underlying().(*types.Pointer); !isPtr {
						path = s2.Sel.Name + "." + path
						root = s2.X
						continue
					}
				}
			}
			break
		}
		rt := info.TypeOf(root)
		if pt, ok := rt.Underlying().(*types.Pointer); ok {
			key := fieldKey(structName(pt.Elem()), path)
			t.fields[key] = append(t.fields[key], root)
			t.fsort[key] = ArraySort(SInt, f.sortOf(info.TypeOf(e)))
			return
		}
		if id, ok := ast.Unparen(root).(*ast.Ident); ok { // struct-valued local
			if obj := info.Uses[id]; obj != nil {
				t.vars[obj] = true
				return
			}
		}
		t.all = true
	case *ast.IndexExpr:
		xt := info.TypeOf(e.X).Underlying()
		switch xt.(type) {
		case *types.Map:
			if gv, ok := f.ghostMapVar(e.X); ok {
				ks, vs := f.vc.mapSorts(gv.Type())
				t.globals[ghostMapKey(gv)] = true
				t.fsort[ghostMapKey(gv)] = ArraySort(ks, vs)
				return
			}
			ks, vs := f.vc.mapSorts(f.subst(info.TypeOf(e.X)))
			k := ks + "|" + vs
			t.maps[k] = append(t.maps[k], e.X)
		default:
			f.scanLhs(e.X, t)
		}
	case *ast.StarExpr:
		t.all = true
	default:
		t.all = true
	}
}

func (f *Frame) scanNode(n ast.Node, t *Targets, seen map[*ast.FuncDecl]bool, depth int) {
	info := f.info()
	ast.Inspect(n, func(n ast.Node) bool {
		// ghost statements attached to this statement write too (ghost counters updated inside a loop body)
		if s, ok := n.(ast.Stmt); ok && f.fi != nil && !f.spec && len(f.fi.Ghost) > 0 {
			if _, isBlock := s.(*ast.BlockStmt); !isBlock {
				text := normSpace(f.vc.srcText(f.pk, s))
				for _, g := range f.fi.Ghost {
					if strings.HasPrefix(text, g.Anchor) && !seen[g.Decl] && depth < 6 {
						seen[g.Decl] = true
						sub := &Frame{vc: f.vc, pk: g.Pkg, tsub: f.tsub}
						gt := newTargets()
						sub.scanNode(g.Decl.Body, gt, seen, depth+1)
						t.absorbCallee(gt)
						delete(seen, g.Decl)
					}
				}
			}
		}
		switch n := n.(type) {
		case *ast.AssignStmt:
			for _, l := range n.Lhs {
				f.scanLhs(l, t)
			}
		case *ast.IncDecStmt:
			f.scanLhs(n.X, t)
		case *ast.RangeStmt:
			if n.Tok == token.ASSIGN {
				if n.Key != nil {
					f.scanLhs(n.Key, t)
				}
				if n.Value != nil {
					f.scanLhs(n.Value, t)
				}
			}
		case *ast.UnaryExpr:
			if n.Op == token.AND {
				t.alloc = true
			}
		case *ast.CompositeLit:
			if _, ok := info.TypeOf(n).Underlying().(*types.Map); ok {
				t.alloc = true
			}
		case *ast.CallExpr:
			if tv, ok := info.Types[n.Fun]; ok && tv.IsType() {
				return true
			}
			if id, ok := ast.Unparen(n.Fun).(*ast.Ident); ok {
				if b, ok := info.Uses[id].(*types.Builtin); ok {
					switch b.Name() {
					case "delete":
						ks, vs := f.vc.mapSorts(f.subst(info.TypeOf(n.Args[0])))
						t.maps[ks+"|"+vs] = append(t.maps[ks+"|"+vs], n.Args[0])
					case "make", "new":
						t.alloc = true
					}
					return true
				}
			}
			if name := vsCallName(f.pk, n); name != "" {
				return true
			}
			fn := f.callee(n)
			if fn == nil {
				return true // function values are heap-neutral by assumption (see funcValueCall)
			}
			if fn.Pkg() != nil {
				switch fn.Pkg().Path() + "." + fn.Name() {
				case "maps.Clone", "go/ast.NewIdent", "fmt.Errorf", "errors.New":
					t.alloc = true
					return true
				case "fmt.Sprintf", "slices.Contains", "slices.Clone", "strconv.Quote", "strings.Compare", "strings.HasPrefix", "strings.HasSuffix":
					return true
				}
				if fn.Pkg().Path() == "log/slog" {
					return true
				}
			}
			var callees []*FuncInfo
			if sig := fn.Type().(*types.Signature); sig.Recv() != nil {
				if _, isI := sig.Recv().Type().Underlying().(*types.Interface); isI {
					if fn.Pkg() != nil && f.vc.prog.PurePkgs[fn.Pkg().Path()] {
						return true // interface method of a package declared pure (go/types): no effect, as at the call itself
					}
					if fi := f.vc.prog.Funcs[fn.Origin()]; fi == nil || fi.Kind != KContract {
						impls := f.implsOf(fn)
						if len(impls) == 0 {
							t.all = true
							return true
						}
						for _, im := range impls {
							callees = append(callees, f.vc.prog.funcInfo(im.fn))
						}
					}
				}
			}
			if len(callees) > 0 {
				for _, cfi := range callees {
					f.scanCallee(cfi, n, t, seen, depth)
				}
				return true
			}
			f.scanCallee(f.vc.prog.funcInfo(fn), n, t, seen, depth)
		}
		return true
	})
}

func (f *Frame) scanCallee(fi *FuncInfo, n *ast.CallExpr, t *Targets, seen map[*ast.FuncDecl]bool, depth int) {
	if vc := f.vc; vc.fi != nil && vc.fi.Aspect != "" && fi.Aspect == "" {
		if a, ok := fi.Aspects[vc.fi.Aspect]; ok && a.Kind == KContract {
			fi = a // same substitution as at the call itself
		}
	}
	fn := fi.Obj
	if fi.Kind == KNone && fn.Pkg() != nil && f.vc.prog.PurePkgs[fn.Pkg().Path()] {
		return
	}
	switch fi.Kind {
	case KContract:
		sp := fi.Spec
		if sp.ModAll {
			t.all = true
		}
		if sp.Allocs {
			t.alloc = true
		}
		for _, m := range sp.Modifies {
			if depth == 0 && n != nil && f.scanCalleeEntry(sp, m, n, t) {
				continue
			}
			f.scanModifiesEntry(sp, m, t)
		}
	case KPure:
	case KModel:
		md, mp := fi.modelFor(f.pk)
		if depth < 6 && !seen[md] {
			seen[md] = true
			sub := &Frame{vc: f.vc, pk: mp, tsub: f.tsub}
			st := newTargets()
			sub.scanNode(md.Body, st, seen, depth+1)
			t.absorbCallee(st)
		}
	case KInline, KSpec:
		if fi.Decl != nil && fi.Decl.Body != nil && depth < 6 && !seen[fi.Decl] {
			seen[fi.Decl] = true
			sub := &Frame{vc: f.vc, pk: fi.Pkg, tsub: f.tsub}
			st := newTargets()
			sub.scanNode(fi.Decl.Body, st, seen, depth+1)
			t.absorbCallee(st)
		}
	default:
		t.all = true
	}
}

// absorbCallee merges a callee's targets: its locals are irrelevant, its heap writes lose their bases.
func (t *Targets) absorbCallee(c *Targets) {
	if c.all {
		t.all = true
	}
	if c.alloc {
		t.alloc = true
	}
	for k := range c.fields {
		t.fields[k] = append(t.fields[k], nil)
	}
	for k, v := range c.fsort {
		t.fsort[k] = v
	}
	for k := range c.maps {
		t.maps[k] = append(t.maps[k], nil)
	}
	for k := range c.globals {
		t.globals[k] = true
	}
}

// scanCalleeEntry records a simple (field / map) modifies entry of a directly called contract callee so
// that the loop-head havoc can be restricted to the location it denotes when the call's arguments are stable.
func (f *Frame) scanCalleeEntry(sp *Spec, m ast.Expr, call *ast.CallExpr, t *Targets) bool {
	if _, isCall := m.(*ast.CallExpr); isCall {
		return false
	}
	sf := &Frame{vc: f.vc, pk: sp.Pkg, tsub: f.tsub}
	info := sp.Pkg.TypesInfo
	mt := info.TypeOf(m)
	if mt == nil {
		return false
	}
	if _, ok := sf.ghostMapVar(m); ok {
		return false
	}
	if _, isMap := mt.Underlying().(*types.Map); isMap {
		ks, vs := f.vc.mapSorts(sf.subst(mt))
		k := ks + "|" + vs
		t.callee = append(t.callee, calleeMod{sp: sp, entry: m, call: call, isMap: true, key: k})
		if _, ok := t.maps[k]; !ok {
			t.maps[k] = []ast.Expr{}
		}
		return true
	}
	sel, ok := ast.Unparen(m).(*ast.SelectorExpr)
	if !ok {
		return false
	}
	s, ok := info.Selections[sel]
	if !ok || s.Kind() != types.FieldVal || len(s.Index()) != 1 {
		return false
	}
	pt, ok := info.TypeOf(sel.X).Underlying().(*types.Pointer)
	if !ok {
		return false
	}
	key := fieldKey(structName(pt.Elem()), sel.Sel.Name)
	t.callee = append(t.callee, calleeMod{sp: sp, entry: m, call: call, key: key})
	t.fsort[key] = ArraySort(SInt, sf.sortOf(mt))
	if _, ok := t.fields[key]; !ok {
		t.fields[key] = []ast.Expr{}
	}
	return true
}

func (f *Frame) scanModifiesEntry(sp *Spec, m ast.Expr, t *Targets) {
	sf := &Frame{vc: f.vc, pk: sp.Pkg, tsub: f.tsub}
	info := sp.Pkg.TypesInfo
	if call, ok := m.(*ast.CallExpr); ok {
		switch vsCallName(sp.Pkg, call) {
		case "FieldOfAll":
			m = call.Args[0]
		case "AllMaps":
			ks, vs := f.vc.mapSorts(sf.subst(info.TypeOf(call.Args[0])))
			t.maps[ks+"|"+vs] = append(t.maps[ks+"|"+vs], nil)
			return
		}
	}
	mt := info.TypeOf(m)
	if gv, ok := sf.ghostMapVar(m); ok {
		ks, vs := f.vc.mapSorts(gv.Type())
		t.globals[ghostMapKey(gv)] = true
		t.fsort[ghostMapKey(gv)] = ArraySort(ks, vs)
		return
	}
	if _, isMap := mt.Underlying().(*types.Map); isMap {
		ks, vs := f.vc.mapSorts(sf.subst(mt))
		t.maps[ks+"|"+vs] = append(t.maps[ks+"|"+vs], nil)
		return
	}
	st := newTargets()
	sf.scanLhs(m, st)
	t.absorbCallee(st)
	for g := range st.globals {
		t.globals[g] = true
	}
	if len(st.vars) > 0 {
		// a modifies entry rooted at a struct-valued parameter: cannot be attributed
		t.all = true
	}
}

// havocTargets applies the loop-head havoc. pre is the state before the loop (bases are evaluated there).
func (f *Frame) havocTargets(st *State, t *Targets, declaredInside func(types.Object) bool) {
	vc := f.vc
	pre := st.clone()
	if t.all {
		vc.havocAll(st)
	}
	for obj := range t.vars {
		if declaredInside(obj) {
			continue
		}
		for k, v := range st.env {
			if k.obj == obj {
				nv := vc.fresh(obj.Name(), v.Sort)
				st.env[k] = nv
				if k.path == "" {
					for _, fact := range f.typeFacts(st, nv, obj.Type()) {
						vc.assume(st, fact)
					}
				}
			}
		}
	}
	if t.all {
		return
	}
	// a base expression is stable if it is an unmodified local followed by fields the loop does not write;
	// its value is then the same at every iteration and is evaluated in the pre-loop state.
	var stableExpr func(e ast.Expr) bool
	stableExpr = func(e ast.Expr) bool {
		switch e := ast.Unparen(e).(type) {
		case *ast.Ident:
			obj := f.info().Uses[e]
			if obj == nil || t.vars[obj] {
				return false
			}
			_, ok := pre.env[envKey{obj, ""}]
			return ok
		case *ast.SelectorExpr:
			sel, ok := f.info().Selections[e]
			if !ok || sel.Kind() != types.FieldVal || len(sel.Index()) != 1 {
				return false
			}
			pt, ok := f.info().TypeOf(e.X).Underlying().(*types.Pointer)
			if !ok {
				return false
			}
			if _, written := t.fields[fieldKey(structName(pt.Elem()), e.Sel.Name)]; written {
				return false
			}
			return stableExpr(e.X)
		}
		return false
	}
	stable := func(e ast.Expr) (Term, bool) {
		if e == nil || !stableExpr(e) {
			return Term{}, false
		}
		sf := *f
		sf.spec = true
		return sf.expr(pre.clone(), e), true
	}
	// callee modifies entries: precise when every argument the entry mentions is stable
	calleeRefs := map[string][]Term{}
	calleeWhole := map[string]bool{}
	for _, cm := range t.callee {
		ref, ok := f.calleeEntryRef(pre, cm, stableExpr, t)
		if ok {
			calleeRefs[cm.key] = append(calleeRefs[cm.key], ref)
		} else {
			calleeWhole[cm.key] = true
		}
	}
	for key, bases := range t.fields {
		srt, ok := vc.heapSort[key]
		if !ok {
			srt = t.fsort[key]
		}
		cur := vc.heapGet(st, key, srt)
		precise := !calleeWhole[key]
		refs := calleeRefs[key]
		for _, b := range bases {
			r, ok := stable(b)
			if !ok {
				precise = false
				break
			}
			refs = append(refs, r)
		}
		if precise {
			_, vs := arrayParts(srt)
			for _, r := range refs {
				cur = Store(cur, r, vc.fresh("hv", vs))
			}
			vc.heapSet(st, key, vc.define("h", cur))
		} else {
			hv := vc.fresh("hv", srt)
			vc.heapSet(st, key, hv)
			// a field of struct type S is written through pointers to S only: objects of every other dynamic type keep
			// their row (typeof facts identify them). Needs the struct type, which a written base expression supplies.
			for _, b := range bases {
				if b == nil {
					continue
				}
				if pt, ok := f.subst(f.info().TypeOf(b)).Underlying().(*types.Pointer); ok {
					if _, isStruct := pt.Elem().Underlying().(*types.Struct); isStruct && fieldKeyOwner(key) == structName(pt.Elem()) {
						r := Term{"r!", SInt}
						vc.assume(st, Forall([]Term{r}, Imp(Not(Eq(app(SInt, "typeof", r), IntLit(int64(vc.tagOf(pt))))),
							Eq(Select(hv, r), Select(cur, r))), Select(hv, r)))
						break
					}
				}
			}
		}
	}
	// A write through a map expression of static type T can only change maps whose dynamic type is T. When a map
	// key cannot be havocked row by row, the rows of maps of every other type are kept (typeof facts identify them).
	mapTags := func(k string, bases []ast.Expr) ([]int, bool) {
		var tags []int
		for _, b := range bases {
			if b == nil {
				return nil, false
			}
			bt := f.subst(f.info().TypeOf(b))
			if bt == nil {
				return nil, false
			}
			tags = append(tags, vc.tagOf(types.Unalias(bt)))
		}
		for _, cm := range t.callee {
			if cm.isMap && cm.key == k {
				ct := cm.sp.Pkg.TypesInfo.TypeOf(cm.entry)
				if ct == nil {
					return nil, false
				}
				tags = append(tags, vc.tagOf(types.Unalias(f.subst(ct))))
			}
		}
		return tags, true
	}
	keepOtherTypes := func(now, was Term, tags []int) {
		r := Term{"r!", SInt}
		var diff []Term
		for _, tg := range tags {
			diff = append(diff, Not(Eq(app(SInt, "typeof", r), IntLit(int64(tg)))))
		}
		vc.assume(st, Forall([]Term{r}, Imp(And(diff...), Eq(Select(now, r), Select(was, r))), Select(now, r)))
	}
	domWas := map[string]Term{}
	domTags := map[string][]int{}
	domUnknown := map[string]bool{}
	for k, bases := range t.maps {
		parts := strings.SplitN(k, "|", 2)
		ks, vs := parts[0], parts[1]
		if _, ok := domWas[ks]; !ok {
			domWas[ks] = vc.mapDom(st, ks)
		}
		dom := vc.mapDom(st, ks)
		val := vc.mapVal(st, ks, vs)
		precise := !calleeWhole[k]
		refs := calleeRefs[k]
		for _, b := range bases {
			r, ok := stable(b)
			if !ok {
				precise = false
				break
			}
			refs = append(refs, r)
		}
		tags, known := mapTags(k, bases)
		if known {
			domTags[ks] = append(domTags[ks], tags...)
		} else {
			domUnknown[ks] = true
		}
		if precise {
			for _, r := range refs {
				dom = Store(dom, r, vc.fresh("hvrow", ArraySort(ks, SBool)))
				val = Store(val, r, vc.fresh("hvrow", ArraySort(ks, vs)))
			}
			vc.heapSet(st, domKey(ks), vc.define("dom", dom))
			vc.heapSet(st, valKey(ks, vs), vc.define("val", val))
		} else {
			vc.heapSet(st, domKey(ks), vc.fresh("hv", dom.Sort))
			nv := vc.fresh("hv", val.Sort)
			vc.heapSet(st, valKey(ks, vs), nv)
			if known {
				keepOtherTypes(nv, val, tags)
			}
		}
	}
	for ks, was := range domWas {
		now := vc.mapDom(st, ks)
		if now.S != was.S && !domUnknown[ks] && !strings.HasPrefix(now.S, "(store") {
			keepOtherTypes(now, was, domTags[ks])
		}
	}
	for g := range t.globals {
		srt, ok := vc.heapSort[g]
		if !ok {
			srt = t.fsort[g]
		}
		vc.heapSet(st, g, vc.fresh("hv", srt))
	}
	if t.alloc {
		vc.havocAlloc(st)
	}
}

// ------------------------------------------------------------ loop specs

func (f *Frame) findLoopSpec(s ast.Stmt) *LoopSpec {
	if f.fi == nil {
		return nil
	}
	text := normSpace(f.vc.srcText(f.pk, s))
	var best *LoopSpec
	for _, ls := range f.fi.Loops {
		a := normSpace(ls.Anchor)
		if strings.HasPrefix(text, a) && (best == nil || len(a) > len(normSpace(best.Anchor))) {
			best = ls // the longest matching anchor wins
		}
	}
	if best != nil {
		best.Used = true
	}
	return best
}

type invEval struct {
	ls      *LoopSpec
	special map[string]Term
}

// loopInvariants evaluates the invariant clauses in state st.
func (f *Frame) loopInvariants(st *State, ls *LoopSpec, pos token.Pos, special map[string]Term) []Term {
	if ls == nil {
		return nil
	}
	vc := f.vc
	args := f.bindByName(st, ls.Params, pos, special)
	env := map[envKey]Term{}
	for k, v := range f.specEnv {
		env[k] = v
	}
	for i, p := range ls.Params {
		env[envKey{p, ""}] = args[i]
	}
	sf := &Frame{vc: vc, pk: ls.Pkg, spec: true, old: f.old, specEnv: env, tsub: f.tsub, bound: map[types.Object]Term{}}
	var out []Term
	for _, c := range ls.Invs {
		out = append(out, sf.expr(st, c.Expr))
	}
	return out
}

func loopName(ls *LoopSpec, pos string) string {
	if ls != nil {
		a := ls.Anchor
		if len(a) > 40 {
			a = a[:40]
		}
		return "loop[" + a + "]"
	}
	return "loop@" + pos
}

// runLoop is the common loop-cutting scheme.
//
//	head(st)  -> called after havoc+invariant assumption; returns (condition, body-prologue)
func (f *Frame) runLoop(st *State, s ast.Stmt, label string, bodyNodes []ast.Node,
	special func(st *State) map[string]Term,
	autoInv func(st *State) Term,
	cond func(st *State) Term,
	prologue func(st *State),
	body []ast.Stmt,
	post func(st *State),
	declaredInside func(types.Object) bool,
	extraHavoc func(st *State)) []Outcome {

	vc := f.vc
	ls := f.findLoopSpec(s)
	lname := loopName(ls, vc.posStr(s.Pos()))
	// 1. invariant on entry
	if ls != nil {
		invs := f.loopInvariants(st, ls, invPos(s), special(st))
		for i, c := range ls.Invs {
			vc.oblige(st, lname+".entry."+c.Label, "inv.entry", invs[i], s.Pos(), vc.srcText(ls.Pkg, c.Expr))
		}
	}
	// 2. arbitrary iteration
	t := f.scanTargets(bodyNodes)
	head := st.clone()
	f.havocTargets(head, t, declaredInside)
	if extraHavoc != nil {
		extraHavoc(head)
	}
	vc.assume(head, autoInv(head))
	if ls != nil {
		invs := f.loopInvariants(head, ls, invPos(s), special(head))
		for _, c := range invs {
			vc.assume(head, c)
		}
	}
	c := cond(head)
	exit := head.clone()
	exit.pc = vc.define("pc", And(head.pc, Not(c)))
	bs := head.clone()
	bs.pc = vc.define("pc", And(head.pc, c))
	prologue(bs)
	outs := f.block(bs, body)
	var result []Outcome
	exits := []*State{exit}
	var backs []*State
	for _, o := range outs {
		switch {
		case o.kind == oFall, o.kind == oCont && (o.label == "" || o.label == label):
			backs = append(backs, o.st)
		case o.kind == oBrk && (o.label == "" || o.label == label):
			exits = append(exits, o.st)
		default:
			result = append(result, o)
		}
	}
	var backStates []*State
	if f.split {
		for _, b := range backs {
			if b != nil && b.pc.S != "false" {
				backStates = append(backStates, b) // one preservation check per path back to the loop head
			}
		}
	} else if back := vc.merge(backs); back != nil {
		backStates = []*State{back}
	}
	for bi, back := range backStates {
		post(back)
		if ls != nil {
			invs := f.loopInvariants(back, ls, invPos(s), special(back))
			suffix := ""
			if len(backStates) > 1 {
				suffix = fmt.Sprintf("#%d", bi+1)
			}
			for i, c := range ls.Invs {
				vc.obligeOnly(back, lname+".preserved."+c.Label+suffix, "inv.preserved", invs[i], s.Pos(), vc.srcText(ls.Pkg, c.Expr))
			}
		}
	}
	if ex := vc.merge(exits); ex != nil {
		result = append(result, Outcome{kind: oFall, st: ex})
	}
	return result
}

func (f *Frame) insideFn(n ast.Node) func(types.Object) bool {
	return func(o types.Object) bool { return o.Pos() >= n.Pos() && o.Pos() < n.End() }
}

func (f *Frame) forLoop(st *State, s *ast.ForStmt, label string) []Outcome {
	if s.Init != nil {
		st = f.stmt(st, s.Init, "")[0].st
	}
	var nodes []ast.Node
	nodes = append(nodes, s.Body)
	if s.Post != nil {
		nodes = append(nodes, s.Post)
	}
	inside := func(o types.Object) bool { return o.Pos() >= s.Body.Pos() && o.Pos() < s.Body.End() }
	return f.runLoop(st, s, label, nodes,
		func(*State) map[string]Term { return nil },
		func(*State) Term { return True },
		func(h *State) Term {
			if s.Cond == nil {
				return True
			}
			return f.expr(h, s.Cond)
		},
		func(*State) {},
		s.Body.List,
		func(b *State) {
			if s.Post != nil {
				f.stmt(b, s.Post, "")
			}
		},
		inside, nil)
}

func (f *Frame) rangeLoop(st *State, s *ast.RangeStmt, label string) []Outcome {
	vc := f.vc
	xt := f.typeOf(s.X)
	inside := func(o types.Object) bool { return o.Pos() >= s.Pos() && o.Pos() < s.End() }
	bindKV := func(b *State, k, v *Term) {
		set := func(e ast.Expr, t *Term) {
			if e == nil || t == nil {
				return
			}
			id, ok := e.(*ast.Ident)
			if !ok {
				vc.fail(e.Pos(), "range variable must be an identifier")
			}
			if id.Name == "_" {
				return
			}
			obj := f.info().Defs[id]
			if obj == nil {
				obj = f.info().Uses[id]
			}
			b.env[envKey{obj, ""}] = *t
		}
		set(s.Key, k)
		set(s.Value, v)
	}
	switch u := xt.Underlying().(type) {
	case *types.Slice, *types.Array, *types.Basic, *types.Signature:
		var n Term
		var seq Term
		isInt := false
		var iterElem types.Type
		if sig, ok := u.(*types.Signature); ok {
			// range over an iterator function (producer protocol): the loop runs over the ghost sequence the
			// iterator yields, vs.YieldSeq(it), which the iterator's contract describes. Trusted (stated in the
			// evidence): the sequence does not depend on what the loop body does.
			iterElem = f.iterElemType(sig)
			if iterElem == nil || s.Value != nil {
				vc.fail(s.Pos(), "range over a function is supported only for func(yield func(T) bool)")
			}
			if se, ok := ast.Unparen(s.X).(*ast.SelectorExpr); ok && f.isMethodValue(se) {
				// `range q.Iter` over a method value (e.g. a queue drained while it is refilled): the yielded
				// sequence is an arbitrary one - nothing is known about it beyond what ghost statements assume
				f.expr(st, se.X)
				seq = vc.fresh("rangeX", SliceSort(f.sortOf(iterElem)))
			} else {
				it := f.expr(st, s.X)
				seq = vc.define("rangeX", f.yieldSeq(it, iterElem))
			}
			n = SLen(seq)
			vc.dropped["range over an iterator function: executed over the sequence its contract yields (the body is assumed not to influence the iterator)"]++
		} else if b, ok := u.(*types.Basic); ok {
			if b.Info()&types.IsInteger == 0 {
				vc.fail(s.Pos(), "range over %s", b)
			}
			isInt = true
			n = vc.define("rangeN", f.expr(st, s.X))
		} else {
			seq = vc.define("rangeX", f.expr(st, s.X))
			n = SLen(seq)
		}
		idxKey := envKey{nil, fmt.Sprintf("$idx%d", s.Pos())}
		st.env[idxKey] = IntLit(0)
		// kvcOuterIdx: the index of the nearest enclosing slice/int range loop (for invariants of nested loops)
		outer := f.rangeIdx
		f.rangeIdx = append(append([]envKey{}, outer...), idxKey)
		defer func() { f.rangeIdx = outer }()
		return f.runLoop(st, s, label, []ast.Node{s.Body},
			func(h *State) map[string]Term {
				sp := map[string]Term{"kvcIdx": h.env[idxKey]}
				if len(outer) > 0 {
					if t, ok := h.env[outer[len(outer)-1]]; ok {
						sp["kvcOuterIdx"] = t
					}
				}
				return sp
			},
			func(h *State) Term {
				i := h.env[idxKey]
				return And(app(SBool, "<=", IntLit(0), i), Or(app(SBool, "<=", i, n), app(SBool, "<", n, IntLit(0))))
			},
			func(h *State) Term { return app(SBool, "<", h.env[idxKey], n) },
			func(b *State) {
				i := b.env[idxKey]
				if isInt {
					bindKV(b, &i, nil)
				} else {
					v := Select(SArr(seq), i)
					var et types.Type
					switch x := u.(type) {
					case *types.Slice:
						et = x.Elem()
					case *types.Array:
						et = x.Elem()
					default:
						et = iterElem
					}
					for _, fact := range f.typeFacts(b, v, et) {
						vc.assume(b, fact)
					}
					if iterElem != nil {
						bindKV(b, &v, nil) // `for x := range it` binds the yielded value
					} else {
						bindKV(b, &i, &v)
					}
				}
			},
			s.Body.List,
			func(b *State) { b.env[idxKey] = vc.define("idx", app(SInt, "+", b.env[idxKey], IntLit(1))) },
			inside,
			func(h *State) { h.env[idxKey] = vc.fresh("idx", SInt) })
	case *types.Map:
		ks, vs := vc.mapSorts(u)
		m := vc.define("rangeM", f.expr(st, s.X))
		seen := vc.newMap(st, ks, SBool)
		seenKey := envKey{nil, fmt.Sprintf("$seen%d", s.Pos())}
		st.env[seenKey] = seen
		curKey := envKey{nil, fmt.Sprintf("$key%d", s.Pos())}
		seenRow := func(h *State) Term { return Select(vc.mapDom(h, ks), seen) }
		return f.runLoop(st, s, label, []ast.Node{s.Body},
			func(h *State) map[string]Term { return map[string]Term{"kvcSeen": seen} },
			func(h *State) Term {
				k := Term{"k!", ks}
				return Forall([]Term{k}, Imp(Select(seenRow(h), k), vc.mapHas(h, m, k)), Select(seenRow(h), k))
			},
			func(h *State) Term {
				k := vc.fresh("rangekey", ks)
				h.env[curKey] = k
				// the loop continues iff some key is left; k is an arbitrary such key
				pending := And(vc.mapHas(h, m, k), Not(Select(seenRow(h), k)))
				kk := Term{"k!", ks}
				none := Forall([]Term{kk}, Imp(vc.mapHas(h, m, kk), Select(seenRow(h), kk)))
				vc.assume(h, Or(pending, none))
				return pending
			},
			func(b *State) {
				k := b.env[curKey]
				var v Term
				if s.Value != nil {
					v = Select(Select(vc.mapVal(b, ks, vs), m), k)
					for _, fact := range f.typeFacts(b, v, u.Elem()) {
						vc.assume(b, fact)
					}
				}
				if s.Value != nil {
					bindKV(b, &k, &v)
				} else {
					bindKV(b, &k, nil)
				}
			},
			s.Body.List,
			func(b *State) {
				k := b.env[curKey]
				dom := vc.mapDom(b, ks)
				vc.heapSet(b, domKey(ks), vc.define("dom", Store(dom, seen, Store(Select(dom, seen), k, True))))
			},
			inside,
			func(h *State) {
				dom := vc.mapDom(h, ks)
				vc.heapSet(h, domKey(ks), vc.define("dom", Store(dom, seen, vc.fresh("seen", ArraySort(ks, SBool)))))
			})
	}
	vc.fail(s.Pos(), "range over %s is not supported", xt)
	return nil
}

// calleeEntryRef evaluates a callee's modifies entry (an expression over the contract's parameters) in
// the pre-loop state, provided every argument it mentions is a stable expression of the caller.
func (f *Frame) calleeEntryRef(pre *State, cm calleeMod, stableExpr func(ast.Expr) bool, t *Targets) (Term, bool) {
	info := cm.sp.Pkg.TypesInfo
	// caller-side argument expressions, receiver first
	var argExprs []ast.Expr
	fn := f.callee(cm.call)
	if fn == nil {
		return Term{}, false
	}
	if fn.Type().(*types.Signature).Recv() != nil {
		sel, ok := ast.Unparen(cm.call.Fun).(*ast.SelectorExpr)
		if !ok {
			return Term{}, false
		}
		argExprs = append(argExprs, sel.X)
	}
	argExprs = append(argExprs, cm.call.Args...)
	env := map[envKey]Term{}
	ok := true
	var root ast.Expr = cm.entry
	if !cm.isMap {
		root = ast.Unparen(cm.entry).(*ast.SelectorExpr).X
	}
	ast.Inspect(root, func(n ast.Node) bool {
		if se, isSel := n.(*ast.SelectorExpr); isSel {
			if s, has := info.Selections[se]; has && s.Kind() == types.FieldVal {
				if pt, isPtr := info.TypeOf(se.X).Underlying().(*types.Pointer); isPtr {
					if _, written := t.fields[fieldKey(structName(pt.Elem()), se.Sel.Name)]; written {
						ok = false
						return false
					}
				}
			}
			return true
		}
		id, isId := n.(*ast.Ident)
		if !isId {
			return true
		}
		obj := info.Uses[id]
		for i, p := range cm.sp.Params {
			if obj == types.Object(p) {
				if i >= len(argExprs) || !stableExpr(argExprs[i]) {
					ok = false
					return false
				}
				sf := *f
				sf.spec = true
				env[envKey{p, ""}] = sf.expr(pre.clone(), argExprs[i])
			}
		}
		return true
	})
	if !ok {
		return Term{}, false
	}
	// the selector chain of the entry itself must not go through fields the loop writes
	ef := &Frame{vc: f.vc, pk: cm.sp.Pkg, spec: true, specEnv: env, tsub: f.tsub, bound: map[types.Object]Term{}}
	var res Term
	func() {
		defer func() {
			if r := recover(); r != nil {
				if _, isVC := r.(vcError); !isVC {
					panic(r)
				}
				ok = false
			}
		}()
		res = ef.expr(pre.clone(), root)
	}()
	return res, ok
}

// iterElemType: T for func(yield func(T) bool), else nil.
func (f *Frame) iterElemType(sig *types.Signature) types.Type {
	if sig.Params().Len() != 1 || sig.Results().Len() != 0 {
		return nil
	}
	y, ok := sig.Params().At(0).Type().Underlying().(*types.Signature)
	if !ok || y.Params().Len() != 1 || y.Results().Len() != 1 {
		return nil
	}
	return f.subst(y.Params().At(0).Type())
}

// yieldSeq: the (ghost) sequence an iterator value yields - an uninterpreted function of the iterator.
func (f *Frame) yieldSeq(it Term, elem types.Type) Term {
	vc := f.vc
	es := f.sortOf(elem)
	name := "yieldseq_" + mangle(es)
	if !vc.ufs[name] {
		vc.ufs[name] = true
		vc.funDecls = append(vc.funDecls, fmt.Sprintf("(declare-fun %s (%s) %s)", name, it.Sort, SliceSort(es)))
		// a yielded sequence has a length like every other slice
		vc.funDecls = append(vc.funDecls, fmt.Sprintf("(assert (forall ((x! %s)) (! (>= (slen (%s x!)) 0) :pattern ((%s x!)))))", it.Sort, name, name))
	}
	return app(SliceSort(es), name, it)
}

// isMethodValue: the selector denotes a bound method (x.M used as a value).
func (f *Frame) isMethodValue(se *ast.SelectorExpr) bool {
	sel, ok := f.info().Selections[se]
	return ok && sel.Kind() == types.MethodVal
}

// invPos: where the parameters of a loop invariant are looked up by name. For a three-clause loop that declares its
// variable (`for i := 0; ...`) this is the start of the body, so that the invariant can name the variable.
func invPos(s ast.Stmt) token.Pos {
	if fs, ok := s.(*ast.ForStmt); ok && fs.Init != nil && fs.Body != nil {
		return fs.Body.Lbrace
	}
	return s.Pos()
}

// fieldKeyOwner: the struct name inside a field heap key "F:<struct>.<field path>".
func fieldKeyOwner(key string) string {
	k := strings.TrimPrefix(key, "F:")
	// the struct name itself contains one dot (pkg.Type); the field path follows the second
	i := strings.Index(k, ".")
	if i < 0 {
		return k
	}
	j := strings.Index(k[i+1:], ".")
	if j < 0 {
		return k
	}
	return k[:i+1+j]
}

package main

import (
	"encoding/json"
	"fmt"
	"go/types"
	"os"
	"path/filepath"
	"regexp"
	"slices"
	"sort"
	"strconv"
	"strings"
	"time"
)

var verifDir = "/verif"

// PropSpec is one entry of /verif/properties.map.json.
type PropSpec struct {
	Level          string            `json:"level"` // proof | other
	Functions      []string          `json:"functions"`
	Obligations    []string          `json:"obligations"` // regexps selecting the obligations that carry the property (default: all of the functions)
	Exclude        []string          `json:"exclude"`
	Bounded        []string          `json:"bounded"`         // names of bounded (executed) checks standing in for unproved obligations
	Static         []string          `json:"static"`          // names of static (evaluation over go/types) checks
	MapOrder       []string          `json:"maporder"`        // package paths whose map ranges get an order-independence obligation each
	MapOrderExempt map[string]string `json:"maporder_exempt"` // site name -> why its obligation is not claimed (reported in the evidence)
	Replay         string            `json:"replay"`          // name of the replay lifter
	Explanation    string            `json:"explanation"`
	Assumptions    []string          `json:"assumptions"`
}

type KnownFinding struct {
	Property   string `json:"property"`
	Obligation string `json:"obligation"` // regexp on the normalised obligation name
	Site       string `json:"site"`
	What       string `json:"what_fails"`
	Scenario   string `json:"scenario,omitempty"`
	Status     string `json:"status,omitempty"` // "" (open) | "fixed"
	Commit     string `json:"commit,omitempty"`
}

var ordRe = regexp.MustCompile(`(#\d+|@return#\d+)`)

func normName(n string) string { return ordRe.ReplaceAllString(n, "") }

func readJSON(path string, v any) error {
	b, err := os.ReadFile(path)
	if err != nil {
		return err
	}
	return json.Unmarshal(b, v)
}

type Violation struct {
	Obligation string
	Reason     string
	Replay     string
	NoInput    bool
}

func cmdCheck(args []string) int {
	if len(args) < 2 {
		fmt.Fprintln(os.Stderr, "usage: kvc check <PROP> <quick|thorough>")
		return 2
	}
	prop, tier := args[0], args[1]
	t0 := time.Now()
	seed := 0
	if s := os.Getenv("VERIF_SEED"); s != "" {
		seed, _ = strconv.Atoi(s)
	}
	if env := os.Getenv("KVC_REPO"); env != "" {
		repoDir = env
	}
	if env := os.Getenv("KVC_VERIF"); env != "" {
		verifDir = env
	}
	var pmap map[string]*PropSpec
	if err := readJSON(filepath.Join(verifDir, "properties.map.json"), &pmap); err != nil {
		fmt.Fprintln(os.Stderr, "properties.map.json:", err)
		return 2
	}
	ps := pmap[prop]
	if ps == nil {
		fmt.Fprintln(os.Stderr, "property not claimed:", prop)
		return 2
	}
	var lock map[string][]string
	_ = readJSON(filepath.Join(verifDir, "obligations.lock.json"), &lock)
	var known []KnownFinding
	_ = readJSON(filepath.Join(verifDir, "known_findings.json"), &known)

	cfg := runCfg{workDir: filepath.Join(verifDir, "work", prop), timeoutS: 10, seed: seed, needAgree: 1, par: 6}
	if tier == "thorough" {
		cfg.timeoutS = 60
		cfg.needAgree = 2
		os.Setenv("KVC_NOCACHE", "1") // every query is solved afresh, by two back ends
	}
	_ = os.RemoveAll(cfg.workDir)
	var incl, excl []*regexp.Regexp
	for _, r := range ps.Obligations {
		incl = append(incl, regexp.MustCompile(r))
	}
	for _, r := range ps.Exclude {
		excl = append(excl, regexp.MustCompile(r))
	}
	cfg.filter = func(n string) bool {
		for _, r := range excl {
			if r.MatchString(n) {
				return false
			}
		}
		if len(incl) == 0 {
			return true
		}
		if strings.Contains(n, "/cover.") || strings.Contains(n, "/attach.") {
			return true // reachability covers and detached anchors concern every property the function is listed under
		}
		for _, r := range incl {
			if r.MatchString(n) {
				return true
			}
		}
		return false
	}

	var violations []Violation
	var results []*OblResult
	var funcsDone []string
	dropped := map[string]int{}
	usedContracts := map[string]bool{}
	broken := []string{}

	prog, err := loadProgram()
	if err != nil {
		// the tree does not type-check with the contracts: every obligation is undischarged
		violations = append(violations, Violation{Obligation: "*", Reason: "cannot load /repo with -tags verif: " + err.Error(), NoInput: true})
	}
	byKey := map[string]*FuncInfo{}
	if prog != nil {
		for _, p := range prog.Problems {
			violations = append(violations, Violation{Obligation: "contract-attachment", Reason: p, NoInput: true})
		}
		for _, fi := range prog.Funcs {
			if fi.Kind == KContract {
				byKey[fi.Key] = fi
			}
		}
		for _, fi := range prog.AspectFuncs {
			if fi.Kind == KContract {
				byKey[fi.Key] = fi
			}
		}
	}
	type job struct {
		key string
		vc  *VC
	}
	var jobs []job
	for _, key := range ps.Functions {
		fi := byKey[key]
		if prog == nil {
			continue
		}
		if fi == nil || fi.Spec == nil {
			violations = append(violations, Violation{Obligation: key + "/*", Reason: "function under contract not found in the current tree", NoInput: true})
			continue
		}
		if fi.Spec.Trusted {
			continue
		}
		vc, err := buildVC(prog, fi)
		if err != nil {
			violations = append(violations, Violation{Obligation: key + "/*", Reason: "cannot generate verification conditions: " + err.Error(), NoInput: true})
			continue
		}
		for k, v := range vc.dropped {
			dropped[k] += v
		}
		for k := range vc.usedContracts {
			usedContracts[k] = true
		}
		jobs = append(jobs, job{key, vc})
		funcsDone = append(funcsDone, key)
	}
	// order-independence obligations: one per map range found in the listed packages (no annotation involved)
	var orderNotes []string
	if prog != nil && len(ps.MapOrder) > 0 {
		sites := findMapRanges(prog, ps.MapOrder)
		for _, site := range sites {
			if why, ex := ps.MapOrderExempt[site.name]; ex {
				orderNotes = append(orderNotes, site.name+": NOT CLAIMED - "+why)
				continue
			}
			vc, note, err := buildMapOrderVC(prog, site)
			if err != nil {
				violations = append(violations, Violation{Obligation: site.name + ".order_independent", Reason: "order independence of this map range cannot be established: " + err.Error(), NoInput: true})
				continue
			}
			if note != "" {
				orderNotes = append(orderNotes, site.name+": "+note)
			}
			jobs = append(jobs, job{site.name, vc})
			funcsDone = append(funcsDone, site.name)
		}
		if len(sites) == 0 {
			broken = append(broken, "no map range found in "+strings.Join(ps.MapOrder, ", ")+" (the order-independence scan is not looking at the code)")
		}
	}
	purityFiles := 0
	if prog != nil && len(ps.MapOrder) > 0 {
		bad, nfiles := purityScan(prog, ps.MapOrder)
		purityFiles = nfiles
		for _, b := range bad {
			violations = append(violations, Violation{Obligation: "purity-scan", Reason: b, NoInput: true})
		}
	}
	// run functions concurrently (each already runs its obligations in parallel)
	resCh := make(chan []*OblResult, len(jobs))
	sem := make(chan struct{}, 3)
	for _, j := range jobs {
		go func(j job) {
			sem <- struct{}{}
			defer func() { <-sem }()
			resCh <- discharge(j.vc, cfg)
		}(j)
	}
	for range jobs {
		results = append(results, <-resCh...)
	}
	sort.Slice(results, func(i, j int) bool { return results[i].Name < results[j].Name })

	// classify
	seenNorm := map[string]bool{}
	knownSeen := []string{}
	nObl, nDis := 0, 0
	cachedN := 0
	byBackend := map[string]int{}
	solverTime := 0.0
	for _, r := range results {
		solverTime += r.TimeS
		if r.Kind == "cover" {
			if r.Status == "vacuous" {
				broken = append(broken, "vacuous precondition / contradictory assumptions: "+r.Name)
			}
			continue
		}
		nObl++
		seenNorm[normName(r.Name)] = true
		if r.Status == "discharged" {
			nDis++
			byBackend[strings.TrimSuffix(r.Backend, " (cached)")]++
			if strings.HasSuffix(r.Backend, " (cached)") {
				cachedN++
			}
			continue
		}
		if kf := matchKnown(known, prop, r); kf != nil {
			line := fmt.Sprintf("KNOWN-FINDING: property=%s %s [%s] %s", prop, normName(r.Name), kf.Site, kf.What)
			if !slices.Contains(knownSeen, line) {
				knownSeen = append(knownSeen, line)
			}
			nObl-- // a known finding is not counted as an obligation of the claim
			continue
		}
		v := Violation{Obligation: r.Name, Reason: fmt.Sprintf("%s (%s) at %s: %s", r.Status, r.Result, r.Pos, r.Text)}
		violations = append(violations, v)
	}
	// locked obligations must still exist
	for _, want := range lock[prop] {
		if !seenNorm[want] && prog != nil {
			found := false
			for _, v := range violations {
				if strings.HasPrefix(want, strings.TrimSuffix(v.Obligation, "*")) {
					found = true
				}
			}
			if !found {
				violations = append(violations, Violation{Obligation: want, Reason: "obligation recorded in obligations.lock.json is no longer generated (contract or code detached)", NoInput: true})
			}
		}
	}

	// bounded / static side checks
	var side []*SideResult
	for _, name := range append(append([]string{}, ps.Static...), ps.Bounded...) {
		sr := runSideCheck(name, prop, tier, seed)
		side = append(side, sr)
		for _, kfLine := range sr.Known {
			knownSeen = append(knownSeen, kfLine)
		}
		if sr.Broken != "" {
			broken = append(broken, name+": "+sr.Broken)
		}
		for _, f := range sr.Failures {
			// a failure of an executed check that is a recorded known finding (matched by its full name) is reported as such
			if kf := matchKnown(known, prop, &OblResult{Name: name + "/" + f.Name}); kf != nil {
				line := fmt.Sprintf("KNOWN-FINDING: property=%s %s [%s] %s", prop, name+"/"+f.Name, kf.Site, kf.What)
				if !slices.Contains(knownSeen, line) {
					knownSeen = append(knownSeen, line)
				}
				continue
			}
			violations = append(violations, Violation{Obligation: name + "/" + f.Name, Reason: f.Detail, Replay: f.Replay})
		}
	}

	// replay of failed obligations
	replayDir := filepath.Join(verifDir, "replays", prop)
	if len(violations) > 0 {
		_ = os.MkdirAll(replayDir, 0o755)
	}
	resByName := map[string]*OblResult{}
	for _, r := range results {
		resByName[r.Name] = r
	}
	replays := 0
	for i := range violations {
		v := &violations[i]
		if v.Replay != "" {
			continue
		}
		r := resByName[v.Obligation]
		psr := ps
		if replays >= 3 { // the directed search is re-run for the first failures only
			cp := *ps
			cp.Replay = ""
			psr = &cp
		}
		replays++
		rp := attemptReplay(psr, prop, v, r, replayDir, seed)
		v.Replay = rp.path
		v.NoInput = !rp.reproduced
	}

	// evidence
	level := ps.Level
	if level == "" {
		level = "other"
	}
	cov := map[string]any{
		"obligations":                     nObl,
		"discharged":                      nDis,
		"checker_cmd":                     fmt.Sprintf("./check %s %s", prop, tier),
		"functions_under_contract":        funcsDone,
		"by_backend":                      byBackend,
		"solver_time_s":                   round2(solverTime),
		"answers_reused_from_query_cache": cachedN,
		"known_findings_seen":             knownSeen,
		"explanation":                     ps.Explanation,
		"evaluations":                     len(results),
		"rule":                            "one SMT query per generated proof obligation (postcondition label, loop-invariant entry/preservation clause, callee precondition, safety check, frame check) of each function under contract; distinct = distinct normalised obligation names that were discharged; cover queries (must not be unsat) are not counted",
	}
	distinct := map[string]bool{}
	var samples []any
	for _, r := range results {
		if r.Status == "discharged" {
			distinct[normName(r.Name)] = true
		}
	}
	for i, r := range results {
		if i%maxInt(1, len(results)/8) == 0 || r.Status != "discharged" && r.Status != "cover-ok" {
			if len(samples) < 24 {
				samples = append(samples, map[string]any{"obligation": r.Name, "kind": r.Kind, "clause": r.Text, "backend": r.Backend, "result": r.Result, "status": r.Status, "time_s": round2(r.TimeS), "smt2": r.SMT2, "pos": r.Pos})
			}
		}
	}
	cov["distinct_nontrivial"] = len(distinct)
	var trusted []string
	trusted = append(trusted, "kvc itself (translation of the typed AST to SMT, weakest-precondition/loop-cutting scheme)", "z3 4.8.12 / z3 5.1.0 / cvc5 1.0.3",
		"Go integers are treated as mathematical integers", "slices have value semantics (no aliasing of backing arrays across the functions under contract)")
	if prog != nil {
		// only the assumptions introduced by the contract files of the packages this property's functions live in
		pkgsUsed := map[string]bool{}
		for _, key := range ps.Functions {
			if fi := byKey[key]; fi != nil && fi.Pkg != nil {
				pkgsUsed[fi.Pkg.PkgPath] = true
			}
		}
		for _, mp := range ps.MapOrder {
			pkgsUsed[mp] = true
		}
		for _, t := range prog.Trusted {
			if pk, ok := prog.TrustedPkg[t]; !ok || len(pkgsUsed) == 0 || pkgsUsed[pk] {
				trusted = append(trusted, t)
			}
		}
	}
	var dl []string
	for k, n := range dropped {
		dl = append(dl, fmt.Sprintf("%s (x%d)", k, n))
	}
	sort.Strings(dl)
	cov["dropped_by_translation"] = dl
	if len(orderNotes) > 0 {
		cov["map_range_notes"] = orderNotes
	}
	if purityFiles > 0 {
		cov["purity_scan_files"] = purityFiles
	}
	// callee contracts relied upon at call sites but not verified by this check
	verifiedSomewhere := map[string]bool{}
	for _, other := range pmap {
		for _, fk := range other.Functions {
			verifiedSomewhere[fk] = true
		}
	}
	var assumedC []string
	for k := range usedContracts {
		verified := false
		for _, fk := range funcsDone {
			if fk == k {
				verified = true
			}
		}
		if !verified {
			note := " (verified by another property's check)"
			if !verifiedSomewhere[k] {
				note = " (ASSUMED: its body is not verified by any check)"
			}
			if fi := byKey[k]; fi != nil && fi.Spec != nil && fi.Spec.Trusted {
				note = " (external function: contract assumed)"
			}
			assumedC = append(assumedC, k+note)
		}
	}
	sort.Strings(assumedC)
	cov["callee_contracts_assumed_here"] = assumedC
	// a second contract (aspect) of a function is proved under its own precondition; callers outside the aspect are
	// checked against the main contract only, so that precondition is an assumption about them
	var aspectPre []string
	for _, k := range funcsDone {
		if fi := byKey[k]; fi != nil && fi.Aspect != "" && fi.Spec != nil {
			for _, c := range fi.Spec.Requires {
				aspectPre = append(aspectPre, fmt.Sprintf("%s requires %s - ASSUMED of callers that are not verified in aspect %q", k, types.ExprString(c.Expr), fi.Aspect))
			}
		}
	}
	if len(aspectPre) > 0 {
		sort.Strings(aspectPre)
		cov["aspect_preconditions_assumed"] = aspectPre
	}
	if len(side) > 0 {
		var bl []any
		for _, s := range side {
			bl = append(bl, s.Evidence)
			if n, ok := s.Evidence["evaluations"].(float64); ok {
				cov["evaluations"] = cov["evaluations"].(int) + int(n)
			}
			if ss, ok := s.Evidence["samples"].([]any); ok && len(ss) > 0 && len(samples) < 30 {
				samples = append(samples, map[string]any{"side_check": s.Name, "sample": ss[0]})
			}
		}
		cov["side_checks"] = bl
	}
	if len(samples) == 0 {
		samples = append(samples, "no obligation generated")
	}
	cov["samples"] = samples
	cov["trusted_base"] = trusted
	if level == "proof" && (nObl == 0 || nDis != nObl) {
		// a proof claim with undischarged obligations is reported as such below; keep the schema satisfied
		if nObl == 0 {
			cov["obligations"] = 1
			cov["discharged"] = 0
		}
	}
	ev := map[string]any{
		"property_id": prop, "tier": tier, "seed": seed, "level": level, "coverage": cov,
		"assumptions": append(append([]string{}, ps.Assumptions...), trusted...),
		"wall_s":      round2(time.Since(t0).Seconds()), "violations": len(violations),
	}
	_ = os.MkdirAll(filepath.Join(verifDir, "evidence"), 0o755)
	eb, _ := json.MarshalIndent(ev, "", " ")
	evPath := filepath.Join(verifDir, "evidence", prop+".json")
	if os.Getenv("KVC_REPO") != "" {
		// a run against a scratch copy (mutant testing) must not overwrite the evidence of /repo
		evPath = filepath.Join(cfg.workDir, "evidence_scratch.json")
	}
	_ = os.WriteFile(evPath, eb, 0o644)

	// report
	for _, l := range knownSeen {
		fmt.Println(l)
	}
	fmt.Printf("property %s (%s): %d/%d obligations discharged over %d functions, %d side checks, %.1fs\n", prop, tier, nDis, nObl, len(funcsDone), len(side), time.Since(t0).Seconds())
	if len(broken) > 0 {
		for _, b := range broken {
			fmt.Println("CHECK-BROKEN:", b)
		}
		return 2
	}
	if len(violations) > 0 {
		for _, v := range violations {
			fmt.Printf("  failed obligation %s: %s\n", v.Obligation, v.Reason)
		}
		// one VIOLATION line per distinct replay file
		seen := map[string]bool{}
		for _, v := range violations {
			if seen[v.Replay] {
				continue
			}
			seen[v.Replay] = true
			suffix := ""
			if v.NoInput {
				suffix = " no-failing-input-found"
			}
			fmt.Printf("VIOLATION property=%s replay=%s%s\n", prop, v.Replay, suffix)
		}
		return 1
	}
	return 0
}

func matchKnown(known []KnownFinding, prop string, r *OblResult) *KnownFinding {
	n := normName(r.Name)
	for i := range known {
		k := &known[i]
		if k.Property != prop || k.Status == "fixed" {
			continue
		}
		if ok, _ := regexp.MatchString("^"+k.Obligation+"$", n); ok {
			return k
		}
	}
	return nil
}

func round2(f float64) float64 { return float64(int(f*100+0.5)) / 100 }
func maxInt(a, b int) int {
	if a > b {
		return a
	}
	return b
}

#!/bin/bash
# mutcheck.sh <patch.diff> <PROP>... : apply a patch to a scratch worktree of /repo HEAD and run the checks against it.
set -u
patch=$(realpath "$1"); shift
wt=/tmp/mutwt_$$
git -C /repo worktree add -q --detach "$wt" HEAD || exit 2
if ! git -C "$wt" apply "$patch"; then echo "PATCH DOES NOT APPLY"; git -C /repo worktree remove --force "$wt"; exit 2; fi
rc=0
for p in "$@"; do
  KVC_REPO="$wt" /verif/check "$p" quick > "/tmp/mutcheck_$p.out" 2>&1; r=$?
  echo "== $p exit=$r"; grep -E "^(VIOLATION|KNOWN-FINDING|CHECK-BROKEN|  failed obligation)" "/tmp/mutcheck_$p.out" | cut -c1-260 | head -12
  [ $r -ne 0 ] && rc=1
done
git -C /repo worktree remove --force "$wt"
# restore evidence of the unchanged tree is the caller's job (re-run ./check)
exit $rc
